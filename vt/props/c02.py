"""
C02 - output events reproduce the source block's output history exactly.

Explicit-state BFS on the real sender block: state = current output (+ simple instance
attributes); every value of the alphabet V is assigned in every reachable state, for every
fan-out / filter / container-style configuration.  Oracle: a list of assignments.
"""
from __future__ import annotations

import asyncio
import collections
import copy
import itertools

import edzed

from ..explore import Acc
from ..harness import Sim, stop
from ..probes import Probe, lblock_class
from ..stategraph import bfs, fingerprint

PROPERTY = 'C02'
LEVEL = 'model_checking'
LEVEL_TEXT = ("Explicit-state search over the real sender blocks (SBlock.set_output, Input, FuncBlock, "
              "Not, Counter, ValuePoll): every value of a 13-element alphabet with equal-but-not-identical members and NaN is "
              "assigned in every reachable output state for ~800 fan-out/filter configurations; the "
              "graph closes, so the chaining previous(k+1)==value(k) and the delivery rules hold for "
              "assignment sequences of any length over the alphabet; plus one Event object shared by "
              "two sender blocks (BFS over assignments of either sender).")
LEVEL_NOTE = ("Filters used are stateless; fan-out 0..3 x 0..3, five filter patterns, three container "
              "styles, shared/distinct destinations; canonical state = output (type+repr) + simple "
              "instance attributes of the sender.")
TECHNIQUE = "explicit-state model checking of the implementation (closed state graph) vs. reference list"
RULE = ("config = (sender kind, #on_output, #on_every_output, container style, filter pattern, shared "
        "destination); BFS over assignment sequences from UNDEF; outcome = (config, state, value, "
        "delivered events); distinct = distinct tuples")
ASSUMPTIONS = ["event filters in the configurations are stateless and deterministic"]

UNDEF = edzed.UNDEF
NAN = float('nan')      # compares unequal to itself: every assignment of it is a change
V = [0, False, 0.0, 1, True, 1.0, 2, None, (), (1,), 'a', [1], NAN]
FILTERS = ['none', 'pass', 'edit', 'reject', 'mut', 'empty', 'strip', 'umap', 'emptyud', 'truthy']


def configs(tier):
    out = []
    fan = 4 if tier == 'quick' else 6       # fan-out 0..3 (thorough 0..5) per event list
    for sender in ('sb', 'input', 'counter', 'valuepoll'):
        for k in range(fan):
            for m in range(fan):
                for style in ('tuple', 'list', 'single'):
                    if style == 'single' and (k > 1 or m > 1 or k + m == 0):
                        continue
                    for pat in range(-1, len(FILTERS)):
                        if k + m == 0 and pat >= 0:
                            continue
                        for shared in (0, 1):
                            if shared and k + m < 2:
                                continue
                            out.append(dict(sender=sender, k=k, m=m, style=style, pat=pat,
                                            shared=shared))
    for sender in ('func', 'not'):
        for k in range(fan):
            for style in ('tuple', 'list', 'single'):
                if style == 'single' and k != 1:
                    continue
                for pat in range(-1, len(FILTERS)):
                    if k == 0 and pat >= 0:
                        continue
                    for shared in (0, 1):
                        if shared and k < 2:
                            continue
                        out.append(dict(sender=sender, k=k, m=0, style=style, pat=pat,
                                        shared=shared))
    # the same Event object listed more than once in one list: sent once per occurrence
    for c in [c for c in out if c['style'] != 'single' and c['k'] + c['m'] >= 1
              and (c['pat'] in (-1, 2) or tier != 'quick') and not c['shared']]:
        out.append(dict(c, dup=1))
    # output assignments made while the circuit is being stopped (in stop(), by stop_data
    # runs): the history reported by the events ends with the block's final output
    for sender in ('stop-set', 'stop-same', 'outasync'):
        for cause in ('shutdown', 'abort'):
            out.append(dict(kind='cleanup', sender=sender, cause=cause, k=1, m=1, pat=-1, style='list', shared=1))
    # a destination's handler assigns the sender's output again while the fan-out of the first
    # assignment is still being delivered: every event still describes ONE real change
    for trig in ('on_output', 'on_every_output'):
        for pos in (0, 1):
            out.append(dict(kind='reentrant', trig=trig, pos=pos, sender='sb', k=1, m=1, pat=-1,
                            style='list', shared=1))
    # one Event object configured on two sender blocks: 'source' and 'previous' are the sender's
    for pair in (('sb', 'sb'), ('input', 'counter'), ('input', 'not')):
        for k, m in ((1, 0), (0, 1), (1, 1), (2, 1)) if tier == 'quick' else itertools.product(range(4), repeat=2):
            if k + m == 0:
                continue
            for pat in ((-1, 1, 2) if tier == 'quick' else range(-1, len(FILTERS))):
                out.append(dict(kind='shared-event', pair=pair, k=k, m=m, pat=pat, sender=pair[0],
                                style='list', shared=1))
    return out


SSENDERS = ('sb', 'input', 'counter', 'valuepoll')      # sequential senders (have on_every_output)


def filt_kind(cfg, idx):
    """Filter kind of the idx-th configured event (on_output first)."""
    if cfg['pat'] < 0:
        return 'none'
    return FILTERS[(cfg['pat'] + idx) % len(FILTERS)]


def _mut(data):
    data['y'] = 2
    return True


def make_filter(kind):
    if kind == 'none':
        return None
    if kind == 'pass':
        return lambda data: True
    if kind == 'edit':
        return edzed.DataEdit.add(x=1)
    if kind == 'reject':
        return lambda data: False
    if kind == 'empty':
        return lambda data: {}          # a mapping (even an empty one) replaces the data
    if kind == 'strip':
        return edzed.DataEdit.permit()
    if kind == 'umap':      # a MutableMapping that is not a dict replaces the data as well
        return lambda data: collections.UserDict({**data, 'u': 3})
    if kind == 'emptyud':
        return lambda data: collections.UserDict()
    if kind == 'truthy':    # the idiom "pass true values": any false result (0, 0.0, '', (), None) vetoes
        return lambda data: data['value']
    return _mut


def apply_ref(kind, data):
    if kind == 'reject':
        return None
    if kind in ('empty', 'strip', 'emptyud'):
        return {}
    if kind == 'truthy':
        return dict(data) if data['value'] else None
    data = dict(data)
    if kind == 'edit':
        data['x'] = 1
    if kind == 'mut':
        data['y'] = 2
    if kind == 'umap':
        data['u'] = 3
    return data


def canon_data(d):
    return tuple(sorted((k, type(v).__name__, repr(v)) for k, v in d.items()))


def wrap(events, style):
    if not events:
        return None if style != 'list' else []
    if style == 'single':
        return events[0]
    return tuple(events) if style == 'tuple' else list(events)


class Setter(edzed.SBlock):
    def __init__(self, *args, first, **kwargs):
        self._first = first
        super().__init__(*args, **kwargs)

    def init_regular(self):
        self.set_output(self._first)

    def _event_set(self, *, value, **_data):
        self.set_output(value)
        return 'done'


def expected(cfg, prev, v, name):
    """Reference: deliveries [(etype, canon data)] of one assignment, and the new output."""
    k, m = cfg['k'], cfg['m']
    if cfg['sender'] == 'not':
        v = not v
    changed = prev is UNDEF or not prev == v
    base = {'previous': prev, 'value': v, 'source': name, 'trigger': 'output'}
    out = []
    dup = cfg.get('dup')
    if changed:
        for i in list(range(k)) + ([0] if dup and k else []):
            d = apply_ref(filt_kind(cfg, i), base)
            if d is not None:
                out.append((f"o{i}", canon_data(d)))
    if cfg['sender'] in SSENDERS or changed:
        if cfg['sender'] in SSENDERS:
            for j in list(range(m)) + ([0] if dup and m else []):
                d = apply_ref(filt_kind(cfg, k + j), base)
                if d is not None:
                    out.append((f"e{j}", canon_data(d)))
    return out, (v if changed else prev)


def run_history(cfg, hist):
    """hist: tuple of indexes into V; the first one is the initial value (from UNDEF)."""
    if not hist:
        return ('UNDEF', cfg['sender']), {'viol': [], 'steps': []}
    info = {'viol': [], 'steps': []}
    sender, k, m = cfg['sender'], cfg['k'], cfg['m']
    log = []
    with Sim() as sim:
        n = k + m
        holder = {}

        def sender_output():
            # what the sender shows while its event is being delivered
            b = holder.get('blk')
            return UNDEF if b is None else b.output
        if cfg['shared']:
            dests = [Probe('p', log=log, extra=sender_output)] * n
        else:
            dests = [Probe(f'p{i}', log=log, extra=sender_output) for i in range(n)]
        evs = []
        for i in range(n):
            etype = f"o{i}" if i < k else f"e{i - k}"
            f = make_filter(filt_kind(cfg, i))
            evs.append(edzed.Event(dests[i], etype, efilter=f) if f is not None
                       else edzed.Event(dests[i], etype))
        dup = cfg.get('dup')
        on_output = wrap(evs[:k] + (evs[:1] if dup and k else []), cfg['style'])
        on_every = wrap(evs[k:] + (evs[k:k + 1] if dup and m else []), cfg['style'])
        first = copy.copy(V[hist[0]])
        kw = {}
        if on_output is not None:
            kw['on_output'] = on_output
        if sender == 'sb':
            if on_every is not None:
                kw['on_every_output'] = on_every
            blk = Setter('snd', first=first, **kw)
            ext = edzed.ExtEvent(blk, 'set')
        elif sender == 'input':
            if on_every is not None:
                kw['on_every_output'] = on_every
            blk = edzed.Input('snd', initdef=first, **kw)
            ext = edzed.ExtEvent(blk, 'put')
        elif sender == 'valuepoll':
            # every poll is an output assignment; the polled function replays the history
            if on_every is not None:
                kw['on_every_output'] = on_every
            polled = {'n': 0}

            def poll():
                i = polled['n']
                polled['n'] += 1
                return copy.copy(V[hist[i]]) if i < len(hist) else UNDEF
            blk = edzed.ValuePoll('snd', func=poll, interval=1, init_timeout=5, **kw)
            ext = None
        elif sender == 'counter':
            # without a modulus a Counter's 'put' assigns any value
            if on_every is not None:
                kw['on_every_output'] = on_every
            blk = edzed.Counter('snd', initdef=first, **kw)
            ext = edzed.ExtEvent(blk, 'put')
        else:
            if sender == 'func':
                # the Input carries the *index* (always a real change), the function maps it to
                # the value: the CBlock itself sees equal-but-not-identical successive results
                inp = edzed.Input('inp', initdef=hist[0])
                blk = edzed.FuncBlock('snd', func=lambda i: copy.copy(V[i]), **kw).connect(inp)
            else:
                inp = edzed.Input('inp', initdef=first)
                blk = edzed.Not('snd', **kw).connect(inp)
            ext = edzed.ExtEvent(inp, 'put')

        holder['blk'] = blk
        # the application goes on using the lists it passed as on_output / on_every_output
        for lst in (on_output, on_every):
            if isinstance(lst, list):
                lst.reverse()
                lst.clear()

        def deliveries(n0):
            return [(e, canon_data(d)) for (_t, _n, e, d, _o) in log[n0:]]

        async def driver():
            task = asyncio.create_task(sim.circuit.run_forever())
            try:
                await sim.circuit.wait_init()
            except Exception as err:    # pylint: disable=broad-except
                info['viol'].append(('start-failed', repr(err)))
                info['dead'] = True
                return
            await sim.loop.idle()
            ref = UNDEF
            for pos, vi in enumerate(hist):
                v = copy.copy(V[vi])
                exp, newref = expected(cfg, ref, v, 'snd')
                if sender == 'func' and pos > 0 and vi == hist[pos - 1]:
                    exp, newref = [], ref       # the index did not change: no re-evaluation at all
                n0 = len(log)
                if pos == 0:
                    got_sync = got = deliveries(0)
                    n0 = 0
                elif sender == 'valuepoll':
                    # the next poll happens one interval later
                    await sim.loop.sleep_until_us(pos * 1_000_000 + 1)
                    await sim.loop.idle()
                    got_sync = got = deliveries(n0)
                else:
                    try:
                        ext.send(vi if sender == 'func' else v)
                    except Exception as err:    # pylint: disable=broad-except
                        info['viol'].append(('send-raised', f"{V[vi]!r}: {err!r}"))
                        info['dead'] = True
                        break
                    got_sync = deliveries(n0)
                    await sim.loop.idle()
                    got = deliveries(n0)
                info['steps'].append((repr(V[vi]), [e for e, _ in got]))
                if sender in SSENDERS and got_sync != got:
                    info['viol'].append(('not-synchronous',
                                         f"assign {V[vi]!r}: {len(got_sync)} of {len(got)} deliveries before the assignment returned"))
                if got != exp:
                    ge, ee = [e for e, _ in got], [e for e, _ in exp]
                    if ge != ee:
                        kind = 'which-events'
                        if sorted(ge) == sorted(ee):
                            kind = 'order'
                        elif len(ge) > len(ee):
                            kind = 'extra-delivery'
                        elif len(ge) < len(ee):
                            kind = 'missing-delivery'
                    else:
                        kind = 'data'
                    info['viol'].append((kind, f"assign {V[vi]!r} in state {ref!r}: delivered {got!r}, expected {exp!r}"))
                for (_t, _n, e, _d, seen) in log[n0:]:
                    if not (type(seen) is type(newref) and (seen == newref or repr(seen) == repr(newref) == 'nan')):
                        info['viol'].append(('output-during-delivery',
                                             f"assign {V[vi]!r} in state {ref!r}: while event {e} was delivered the "
                                             f"sender's output was {seen!r}, the new output is {newref!r}"))
                        break
                outv = blk.output
                if not (type(outv) is type(newref) and (outv == newref or repr(outv) == repr(newref) == 'nan')):
                    info['viol'].append(('output-value', f"assign {V[vi]!r} in state {ref!r}: output {outv!r}, expected {newref!r}"))
                if not sim.circuit.is_ready():
                    info['viol'].append(('simulation-stopped', repr(sim.circuit.error)))
                    info['dead'] = True
                    break
                ref = newref
            info['canon'] = (sender, type(blk.output).__name__, repr(blk.output),
                             fingerprint(blk, skip=('comment', 'name', 'debug', '_first', 'initdef')))
            await stop(sim.circuit)
            del task
        sim.run(driver())
    return (None if info.get('dead') else info['canon']), info


SV = [0, 1, True, 'a']


def run_shared(cfg, hist):
    """
    Two sender blocks configured with the very same Event objects.  hist: tuple of
    (sender index, index into SV); both senders start with SV[0].
    """
    info = {'viol': [], 'steps': []}
    pair, k, m = cfg['pair'], cfg['k'], cfg['m']
    log = []
    with Sim() as sim:
        dest = Probe('p', log=log)
        evs = []
        for i in range(k + m):
            etype = f"o{i}" if i < k else f"e{i - k}"
            f = make_filter(filt_kind(cfg, i))
            evs.append(edzed.Event(dest, etype, efilter=f) if f is not None else edzed.Event(dest, etype))
        blocks, exts, cfgs = [], [], []
        for idx, kind in enumerate(pair):
            name = f"snd{idx}"
            kw = {}
            if k:
                kw['on_output'] = evs[:k]
            if m and kind in SSENDERS:
                kw['on_every_output'] = evs[k:]
            if kind == 'sb':
                blk = Setter(name, first=SV[0], **kw)
                ext = edzed.ExtEvent(blk, 'set')
            elif kind == 'input':
                blk = edzed.Input(name, initdef=SV[0], **kw)
                ext = edzed.ExtEvent(blk, 'put')
            elif kind == 'counter':
                blk = edzed.Counter(name, initdef=SV[0], **kw)
                ext = edzed.ExtEvent(blk, 'put')
            else:       # 'not': follows the first sender
                blk = edzed.Not(name, **kw).connect(blocks[0])
                ext = None
            blocks.append(blk)
            exts.append(ext)
            cfgs.append(dict(cfg, sender=kind))

        def deliveries(n0):
            return [(e, canon_data(d)) for (_t, _n, e, d) in log[n0:]]

        async def driver():
            task = asyncio.create_task(sim.circuit.run_forever())
            try:
                await sim.circuit.wait_init()
            except Exception as err:    # pylint: disable=broad-except
                info['viol'].append(('start-failed', repr(err)))
                info['dead'] = True
                return
            await sim.loop.idle()
            # start-up: every sender announced its first output under its own name
            refs = [UNDEF, UNDEF]
            exp0 = []
            for idx in (0, 1):
                e, refs[idx] = expected(cfgs[idx], UNDEF, SV[0], f"snd{idx}")
                exp0 += e
            if sorted(deliveries(0)) != sorted(exp0):
                info['viol'].append(('shared-event-data', f"start-up: delivered {deliveries(0)!r}, expected {exp0!r}"))
            for (idx, vi) in hist:
                v = SV[vi]
                n0 = len(log)
                if exts[idx] is None:
                    continue
                exp, refs[idx] = expected(cfgs[idx], refs[idx], v, f"snd{idx}")
                if pair[1] == 'not' and idx == 0:
                    e2, refs[1] = expected(cfgs[1], refs[1], v, "snd1")
                    exp = exp + e2
                exts[idx].send(v)
                await sim.loop.idle()
                got = deliveries(n0)
                info['steps'].append((idx, repr(v), [e for e, _ in got]))
                if got != exp:
                    info['viol'].append(('shared-event-data',
                                         f"snd{idx} assigns {v!r}: delivered {got!r}, expected {exp!r}"))
                if not sim.circuit.is_ready():
                    info['viol'].append(('simulation-stopped', repr(sim.circuit.error)))
                    info['dead'] = True
                    break
            info['canon'] = ('shared', tuple((type(b.output).__name__, repr(b.output)) for b in blocks))
            await stop(sim.circuit)
            del task
        sim.run(driver())
    return (None if info.get('dead') else info['canon']), info


def run_reentrant(cfg, acc):
    viol = []
    log = []
    with Sim() as sim:
        rec1 = Probe('rec1', log=log)
        rec2 = Probe('rec2', log=log)
        holder = {}

        class Limiter(edzed.SBlock):
            def init_regular(self):
                self.set_output(0)

            def _event_trip(self, *, value, **_data):
                if value == 5:
                    holder['snd'].set_output(0)     # nested assignment (not an event: no recursion)
        lim = Limiter('lim')
        evs = [edzed.Event(rec1, 'r1'), edzed.Event(rec2, 'r2')]
        # (the nested change 5 -> 0 itself is filtered out: no event loop)
        evs.insert(cfg['pos'], edzed.Event(lim, 'trip', efilter=lambda data: data['value'] == 5))
        snd = holder['snd'] = Setter('snd', first=0, **{cfg['trig']: evs})

        async def driver():
            task = asyncio.create_task(sim.circuit.run_forever())
            await sim.circuit.wait_init()
            for v in (5, 3, 5):
                edzed.ExtEvent(snd, 'set').send(v)
                await sim.loop.idle()
            await stop(sim.circuit)
            del task
        sim.run(driver())
    acc.execs += 1
    # real changes: UNDEF->0, 0->5, 5->0 (nested), 0->3, 3->5, 5->0 (nested)
    changes = [(UNDEF, 0), (0, 5), (5, 0), (0, 3), (3, 5), (5, 0)]
    for name, et in (('rec1', 'r1'), ('rec2', 'r2')):
        got = [(d['previous'], d['value']) for (_t, n, e, d) in log if n == name and e == et]
        acc.outcome(('reentrant', cfg['trig'], cfg['pos'], name, repr(got)))
        if sorted(map(repr, got)) != sorted(map(repr, changes)):
            viol.append(('data', f"{cfg['trig']}, the re-assigning destination at position {cfg['pos']}: "
                         f"{name} received (previous, value) = {got}; the real changes were {changes}"))
    return viol


def run_cleanup(cfg, acc):
    viol = []
    log = []
    res = {}
    with Sim() as sim:
        probe = Probe('probe', log=log)
        kw = dict(on_output=edzed.Event(probe, 'o'), on_every_output=edzed.Event(probe, 'e'))
        if cfg['sender'] == 'outasync':
            async def coro(value):
                await asyncio.sleep(1)
            blk = edzed.OutputAsync('snd', coro=coro, mode='wait', stop_data={'value': 'STOP'},
                                    on_error=None, stop_timeout=10, **kw)
            assigned = [0, 1, 0]        # init, stop_data run begins, run ends
        else:
            final = 5 if cfg['sender'] == 'stop-set' else 0
            blk = lblock_class()('snd', log=[], cfg={'init_regular': ('set', 0), 'stop': ('set', final)}, **kw)
            assigned = [0, final]

        async def driver():
            task = asyncio.create_task(sim.circuit.run_forever())
            await sim.circuit.wait_init()
            await sim.loop.idle()
            if cfg['cause'] == 'abort':
                sim.circuit.abort(RuntimeError('stop the circuit'))
            await stop(sim.circuit)
            res['final'] = blk.output
            del task
        sim.run(driver())
    acc.execs += 1
    o_ev = [d for (_t, _n, e, d) in log if e == 'o']
    e_ev = [d for (_t, _n, e, d) in log if e == 'e']
    acc.outcome(('cleanup', cfg['sender'], cfg['cause'], repr([(d['previous'], d['value']) for d in o_ev]), len(e_ev)))
    tag = f"sender {cfg['sender']}, stopped by {cfg['cause']}: assignments {assigned}"
    exp_o, prev = [], UNDEF
    for v in assigned:
        if prev is UNDEF or prev != v:
            exp_o.append((prev, v))
            prev = v
    exp_e, prev = [], UNDEF
    for v in assigned:
        exp_e.append((prev, v))
        prev = v
    got_o = [(d['previous'], d['value']) for d in o_ev]
    got_e = [(d['previous'], d['value']) for d in e_ev]
    if res.get('final') != assigned[-1]:
        viol.append(('output-value', f"{tag}: final output {res.get('final')!r}"))
    if got_o != exp_o:
        viol.append(('missing-delivery' if len(got_o) < len(exp_o) else 'which-events',
                     f"{tag}: on_output reported {got_o}, expected {exp_o}"))
    if got_e != exp_e:
        viol.append(('missing-delivery' if len(got_e) < len(exp_e) else 'which-events',
                     f"{tag}: on_every_output reported {got_e}, expected {exp_e}"))
    return viol


def run_config(cfg):
    acc = Acc()
    if cfg.get('kind') == 'reentrant':
        for sig, msg in run_reentrant(cfg, acc):
            acc.violation(f"C02:{sig}:reentrant", msg, cfg=cfg)
        return acc
    if cfg.get('kind') == 'cleanup':
        for sig, msg in run_cleanup(cfg, acc):
            acc.violation(f"C02:{sig}:cleanup", msg, cfg=cfg)
        return acc
    if cfg.get('kind') == 'shared-event':
        def on_step2(hist, hc, sym, canon, info):
            for sig, msg in info['viol']:
                acc.violation(f"C02:{sig}:{'+'.join(cfg['pair'])}", msg, cfg=cfg,
                              detail={'history': list(hist), 'steps': info['steps']})
            acc.outcome((tuple(sorted((k, repr(v)) for k, v in cfg.items())), hc, sym, repr(info['steps'][-1:])))
        alphabet = [(i, vi) for i in range(2 if cfg['pair'][1] != 'not' else 1) for vi in range(len(SV))]
        res = bfs(lambda h: run_shared(cfg, h), alphabet, acc, max_depth=4, on_step=on_step2)
        acc.count('graphs_closed' if res['closed'] else 'graphs_open')
        if not res['closed'] and not acc.violations:
            acc.violation("C02:graph-did-not-close:shared-event", str(res), cfg=cfg)
        acc.sample({'cfg': cfg, 'result': res}, limit=2)
        return acc

    def on_step(hist, hc, sym, canon, info):
        for sig, msg in info['viol']:
            acc.violation(f"C02:{sig}:{cfg['sender']}", msg, cfg=cfg,
                          detail={'history': [repr(V[i]) for i in hist], 'steps': info['steps']})
        acc.outcome((tuple(sorted(cfg.items())), hc, sym, repr(info['steps'][-1:])))
    res = bfs(lambda h: run_history(cfg, h), range(len(V)), acc, max_depth=5, on_step=on_step)
    acc.count('graphs_closed' if res['closed'] else 'graphs_open')
    if not res['closed'] and not acc.violations:
        acc.violation(f"C02:graph-did-not-close:{cfg['sender']}", str(res), cfg=cfg)
    acc.sample({'cfg': cfg, 'result': res}, limit=3)
    return acc

"""
Explicit-state breadth-first search over the *real object* (E5).

A state is the event history that reaches it (live asyncio objects cannot be copied, so
states are re-reached by replay on a fresh circuit).  run(history) must return
(canon, info): canon = hashable canonical form of the state after the history (or None
when the history ends in a terminal situation that must not be extended), info = anything.
Every alphabet symbol is applied in every distinct canonical state.  The graph "closes"
when no new canonical state appears before max_depth.
"""
from __future__ import annotations

import collections

from .explore import h64


def fingerprint(obj, skip=()):
    """
    Canonical form of an instance's own attributes with simple values - catches hidden
    state that the property-level canon would merge away.
    """
    out = []
    for k, v in sorted(vars(obj).items()):
        if k in skip:
            continue
        if isinstance(v, (int, float, str, bool, type(None), bytes)):
            out.append((k, type(v).__name__, repr(v)))
        elif isinstance(v, (tuple, list)) and all(
                isinstance(x, (int, float, str, bool, type(None))) for x in v):
            out.append((k, type(v).__name__, repr(v)))
        elif isinstance(v, dict) and all(
                isinstance(x, (int, float, str, bool, type(None))) for x in v.values()):
            out.append((k, 'dict', repr(sorted(v.items(), key=repr))))
    return tuple(out)


def bfs(run, alphabet, acc, max_depth=None, max_states=None, on_step=None):
    """
    run(history: tuple) -> (canon, info).  Returns dict(closed=bool, depth=int, states=int).
    on_step(history, canon_before, symbol, canon_after, info) is called for every transition.
    """
    c0, info0 = run(())
    h0 = acc.state(c0)
    seen = {h0}
    frontier = collections.deque([((), h0)])
    depth_reached = 0
    closed = True
    while frontier:
        hist, hc = frontier.popleft()
        if max_depth is not None and len(hist) >= max_depth:
            closed = False
            continue
        for sym in alphabet:
            nh = hist + (sym,)
            canon, info = run(nh)
            acc.execs += 1
            if on_step is not None:
                on_step(nh, hc, sym, canon, info)
            if canon is None:
                acc.transition(hc, repr(sym), 'terminal')
                continue
            hn = acc.state(canon)
            acc.transition(hc, repr(sym), hn)
            if hn not in seen:
                if max_states is not None and len(seen) >= max_states:
                    closed = False
                    if 'max_states' not in acc.caps:
                        acc.caps.append('max_states')
                    continue
                seen.add(hn)
                frontier.append((nh, hn))
                depth_reached = max(depth_reached, len(nh))
    return dict(closed=closed, depth=depth_reached, states=len(seen))

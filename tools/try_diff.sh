#!/bin/bash
# usage: tools/try_diff.sh <patch-file> PID [PID ...]  -- run checks against an arbitrary patch in a scratch worktree
set -u
P=$1; shift
WT=${WT:-/tmp/seedwt}
[ -d $WT ] || git -C /repo worktree add --detach -q $WT HEAD
cd $WT; git checkout -q --detach $(git -C /repo rev-parse HEAD); git reset -q --hard; git clean -fdq
git apply "$P" || { echo "APPLY FAILED $P"; exit 2; }
cd /verif
for pid in "$@"; do
  out=$(VERIF_REPO=$WT VERIF_NO_EVIDENCE=1 timeout 1200 /venv/bin/python -m vt $pid --tier ${TIER:-quick} 2>&1); rc=$?
  echo "== patch $(basename $P) check $pid rc=$rc"
  echo "$out" | grep -A1 VIOLATION | grep -v "VIOLATION\|^--" | head -${NSHOW:-3}
done
git -C $WT reset -q --hard

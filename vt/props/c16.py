"""
C16 - event filters form an ordered pipeline; the bundled filters do what they document.

 * Edge: complete truth table (24 flag combinations x previous x value), direct calls and through
   a real Input.on_output -> Event -> probe path;
 * not_from_undef: every previous value;
 * Delta: explicit-state search on the filter's memory (closed graph => sequences of any length),
   two filter instances interleaved (no shared state), and through a real circuit;
 * IfOutput / NotIfInitialized: control block by object, by name (and '_not_NAME'), falsy /
   truthy / uninitialised control block, in a real start-up;
 * DataEdit: every chain of <= 3 (quick) / 4 (thorough) operations from a catalogue over keys
   {a,b,c} x every input dict over subsets of {a,b}, class-call and instance construction,
   re-use of one filter for many deliveries, pairs of separately built filters, add_output
   by object and by name;
 * pipelines: every sequence of <= 3 filters from a catalogue (new dict, in-place edit, truthy
   non-mapping, every falsy value, empty dict, non-string key, library filters), every filter
   logging what it saw, delivered through the real Event.send into a probe, twice.
"""
from __future__ import annotations

import asyncio
import collections
import itertools

import edzed

from ..explore import Acc
from ..harness import Sim, stop
from ..probes import Probe
from ..stategraph import bfs

PROPERTY = 'C16'
LEVEL = 'model_checking'
LEVEL_TEXT = ("Exhaustive exploration of the real filter code against references written from "
              "docs/filters.rst and docs/events.rst: the complete Edge truth table, a closed state "
              "graph of Delta's memory (so sequences of any length over the value set), every "
              "DataEdit chain up to the depth bound on every small input dict, every filter "
              "pipeline up to length 3 from a catalogue, each delivered through the real "
              "Event.send into a probe block of a running circuit.")
LEVEL_NOTE = ("Value sets are small catalogues; DataEdit chains <= 3 (quick) / 4 (thorough) over 23 "
              "operations; where the docs only say a key 'must exist' any exception is accepted "
              "for a missing key; a filter result that is a Mapping but not a MutableMapping is "
              "not exercised (docs and statement differ).")
TECHNIQUE = ("explicit-state / bounded exhaustive exploration of the implementation vs. dictionary "
             "and predicate references")
RULE = ("a case = one (filter configuration, input) evaluation; Delta: BFS state = sequence of "
        "values replayed on a fresh filter, canonical = instance attributes; DataEdit: (chain, "
        "construction style, input dict); pipeline: (filter sequence, delivery number); distinct "
        "= distinct (case, result) pairs")
ASSUMPTIONS = [
    "references written from docs/filters.rst, docs/events.rst",
    "user filters in pipelines are the harness' own (pure, logging) functions",
]

UNDEF = edzed.UNDEF


def configs(tier):
    out = [dict(kind='edge', rise=r, fall=f) for r in (False, True) for f in (False, True)]
    out.append(dict(kind='nfu'))
    for delta in (0, 1, 2, 2.5):
        out.append(dict(kind='delta', delta=delta))
        out.append(dict(kind='delta-pipe', delta=delta))
    out.append(dict(kind='delta-pair'))
    out.append(dict(kind='ifoutput'))
    nops = len(make_ops(None)[0])
    depth = 3 if tier == 'quick' else 4
    for first in range(nops):
        if depth == 4:
            for second in range(nops):
                out.append(dict(kind='dataedit', first=first, second=second, depth=depth))
        else:
            out.append(dict(kind='dataedit', first=first, second=None, depth=depth))
    out.append(dict(kind='dataedit-pairs'))
    out.append(dict(kind='dataedit-pipe'))
    for first in range(len(FKINDS)):
        out.append(dict(kind='pipeline', first=first))
    out.append(dict(kind='pipeline', first=None))
    out.append(dict(kind='fanout'))
    return out


# ------------------------------------------------------------------ Edge / not_from_undef

VALS = [0, False, '', None, 1, True, 'x', 2.5]


def ref_edge(rise, fall, u_rise, u_fall, previous, value):
    if u_rise is None:
        u_rise = rise
    if previous is UNDEF:
        return bool(u_rise) if value else bool(u_fall)
    pb, vb = bool(previous), bool(value)
    if not pb and vb:
        return bool(rise)
    if pb and not vb:
        return bool(fall)
    return False


def run_edge(cfg, acc):
    rise, fall = cfg['rise'], cfg['fall']
    for u_rise in (None, False, True):
        for u_fall in (False, True):
            flt = edzed.Edge(rise=rise, fall=fall, u_rise=u_rise, u_fall=u_fall)
            for previous in [UNDEF] + VALS:
                for value in VALS:
                    acc.execs += 1
                    data = {'previous': previous, 'value': value, 'source': 's', 'trigger': 'output'}
                    got = flt(dict(data))
                    exp = ref_edge(rise, fall, u_rise, u_fall, previous, value)
                    acc.outcome(('edge', rise, fall, u_rise, u_fall, repr(previous), repr(value), bool(got)))
                    passed = bool(got) or isinstance(got, dict)
                    if passed != exp:
                        acc.violation('C16:edge-truth-table',
                                      f"Edge(rise={rise}, fall={fall}, u_rise={u_rise}, u_fall={u_fall}) "
                                      f"{previous!r} -> {value!r}: passed={passed}, expected {exp}",
                                      cfg=cfg)
            # through a real circuit: Input -> on_output -> Event(efilter=Edge) -> probe
            for init in (0, 1, None, 'x'):
                log = []
                with Sim() as sim:
                    probe = Probe('probe', log=log)
                    src = edzed.Input('src', initdef=init, on_output=edzed.Event(
                        probe, 'ev', efilter=edzed.Edge(rise=rise, fall=fall, u_rise=u_rise,
                                                        u_fall=u_fall)))
                    seq = [1, 0, 'x', 2.5, '', 1, None, True, False]
                    exp_log = []

                    async def driver():
                        task = asyncio.create_task(sim.circuit.run_forever())
                        await sim.circuit.wait_init()
                        prev = UNDEF
                        for v in [init] + seq:
                            if v is not init or prev is not UNDEF:
                                edzed.ExtEvent(src).send(v)
                            if prev is UNDEF or prev != v:
                                if ref_edge(rise, fall, u_rise, u_fall, prev, v):
                                    exp_log.append((repr(prev), repr(v)))
                                prev = v
                        await stop(sim.circuit)
                        del task
                    sim.run(driver())
                acc.execs += 1
                got_log = [(repr(d['previous']), repr(d['value'])) for (_t, _n, _e, d) in log]
                acc.outcome(('edge-pipe', rise, fall, u_rise, u_fall, init, tuple(got_log)))
                if got_log != exp_log:
                    acc.violation('C16:edge-through-circuit',
                                  f"Edge(rise={rise}, fall={fall}, u_rise={u_rise}, u_fall={u_fall}), "
                                  f"Input initdef={init!r}: destination saw {got_log}, expected {exp_log}",
                                  cfg=cfg)
    acc.sample({'kind': 'edge', 'rise': rise, 'fall': fall, 'table_rows': 6 * 9 * 8}, limit=1)


def run_nfu(cfg, acc):
    for previous in [UNDEF] + VALS + [[], {}, (), 0.0]:
        acc.execs += 1
        got = edzed.not_from_undef({'previous': previous, 'value': 1, 'source': 's'})
        exp = previous is not UNDEF
        acc.outcome(('nfu', repr(previous), bool(got)))
        if bool(got) != exp and not isinstance(got, dict):
            acc.violation('C16:not_from_undef', f"previous={previous!r}: {got!r}, expected {exp}",
                          cfg=cfg)
        if isinstance(got, dict) and not exp:
            acc.violation('C16:not_from_undef', f"previous={previous!r}: passed", cfg=cfg)
    acc.state(('nfu',))


# ------------------------------------------------------------------ Delta

DVALS = [-1, 0, 1, 2, 3, 5, 2.5]


def filt_canon(flt):
    return tuple(sorted((k, repr(v)) for k, v in vars(flt).items()))


def run_delta(cfg, acc):
    delta = cfg['delta']

    def run(hist):
        flt = edzed.Delta(delta)
        last = UNDEF
        viol = []
        for v in hist:
            exp = last is UNDEF or abs(last - v) >= delta
            got = flt({'value': v, 'previous': 0, 'source': 's'})
            passed = bool(got) or isinstance(got, dict)
            if passed != exp:
                viol.append(f"Delta({delta}) after {list(hist)}: value {v!r} with last passed "
                            f"{last!r}: passed={passed}, expected {exp}")
            if exp:
                last = v
        return ('delta', delta, repr(last), filt_canon(flt)), viol

    def on_step(hist, hc, sym, canon, info):
        acc.outcome(('delta', delta, hc, sym, canon))
        for msg in info:
            acc.violation('C16:delta-last-passed', msg, cfg=cfg, detail={'history': list(hist)})
    res = bfs(run, DVALS, acc, max_depth=8, on_step=on_step)
    acc.count('graphs_closed' if res['closed'] else 'graphs_open')
    if not res['closed']:
        acc.violation('C16:delta-graph-open', f"Delta({delta}): graph did not close", cfg=cfg)
    acc.sample({'kind': 'delta', 'delta': delta, 'graph': res}, limit=2)


def run_delta_pair(cfg, acc):
    """Two filters interleaved: the memory belongs to the instance."""
    deltas = (1, 2)
    alphabet = [(i, v) for i in (0, 1) for v in (0, 1, 3)]

    def run(hist):
        flts = [edzed.Delta(d) for d in deltas]
        last = [UNDEF, UNDEF]
        viol = []
        for i, v in hist:
            exp = last[i] is UNDEF or abs(last[i] - v) >= deltas[i]
            got = bool(flts[i]({'value': v, 'source': 's'}))
            if got != exp:
                viol.append(f"two Delta filters, history {list(hist)}: filter #{i} value {v}: "
                            f"passed={got}, expected {exp} (own last passed {last[i]!r})")
            if exp:
                last[i] = v
        return ('dpair', repr(last), filt_canon(flts[0]), filt_canon(flts[1])), viol

    def on_step(hist, hc, sym, canon, info):
        acc.outcome(('dpair', hc, sym, canon))
        for msg in info:
            acc.violation('C16:delta-shared-state', msg, cfg=cfg, detail={'history': list(hist)})
    res = bfs(run, alphabet, acc, max_depth=6, on_step=on_step)
    acc.count('graphs_closed' if res['closed'] else 'graphs_open')


def run_delta_pipe(cfg, acc):
    """Delta behind a real Input: the destination sees exactly the passed values."""
    delta = cfg['delta']
    vals = [0, 1, 2, 3, 5, 2.5]

    def run(hist):
        log = []
        viol = []
        with Sim() as sim:
            probe = Probe('probe', log=log)
            probe2 = Probe('probe2', log=log)
            src = edzed.Input('src', initdef=-1, on_output=[
                edzed.Event(probe, 'ev', efilter=edzed.Delta(delta)),
                edzed.Event(probe2, 'ev', efilter=(edzed.not_from_undef, edzed.Delta(delta)))])
            exp = []

            async def driver():
                task = asyncio.create_task(sim.circuit.run_forever())
                await sim.circuit.wait_init()
                last = [UNDEF, UNDEF]
                prev = UNDEF
                for v in (-1,) + tuple(hist):
                    if prev is not UNDEF:
                        edzed.ExtEvent(src).send(v)
                    if prev is UNDEF or prev != v:
                        for i, pname in enumerate(('probe', 'probe2')):
                            if i == 1 and prev is UNDEF:
                                continue    # not_from_undef comes first: Delta never sees it
                            if last[i] is UNDEF or abs(last[i] - v) >= delta:
                                last[i] = v
                                exp.append((pname, v))
                        prev = v
                await stop(sim.circuit)
                del task
            sim.run(driver())
        got = [(n, d['value']) for (_t, n, _e, d) in log]
        if got != exp:
            viol.append(f"Input -> Delta({delta}) -> probe, puts {list(hist)}: destinations saw "
                        f"{got}, expected {exp}")
        return ('dpipe', delta, tuple(got[-2:]), hist[-1] if hist else None), viol

    def on_step(hist, hc, sym, canon, info):
        acc.outcome(('dpipe', delta, hist))
        for msg in info:
            acc.violation('C16:delta-through-circuit', msg, cfg=cfg, detail={'history': list(hist)})
    bfs(run, vals, acc, max_depth=3, on_step=on_step)


# ------------------------------------------------------------------ IfOutput / NotIfInitialized

def run_ifoutput(cfg, acc):
    nii = getattr(edzed, 'NotIfInitialized', None)
    if nii is None:
        acc.violation('C16:NotIfInitialized-missing',
                      "edzed.NotIfInitialized (docs/filters.rst, docs/sblocks1.rst) does not exist",
                      cfg=cfg)
        nii = getattr(edzed, 'IfNotIitialized', None)
    for ref_style in ('object', 'name', 'not_name'):
        for ctl_vals in ([0, 1, '', 'x', None, 2.5, False, True, {'k': 1, 'value': 'forged'}, {}, [0], [], 0],):
            log = []
            with Sim() as sim:
                probe = Probe('probe', log=log)
                ctl = edzed.Input('ctl', initdef=ctl_vals[0])
                ref = {'object': ctl, 'name': 'ctl', 'not_name': '_not_ctl'}[ref_style]
                src = edzed.Input('src', initdef=0, on_output=edzed.Event(
                    probe, 'ev', efilter=edzed.IfOutput(ref)))
                exp = []

                async def driver():
                    task = asyncio.create_task(sim.circuit.run_forever())
                    await sim.circuit.wait_init()
                    n = 0
                    for cv in ctl_vals:
                        edzed.ExtEvent(ctl).send(cv)
                        await sim.loop.idle()   # the inverter block follows the control block
                        n += 1
                        edzed.ExtEvent(src).send(n)
                        on = bool(cv) if ref_style != 'not_name' else not cv
                        if on:
                            exp.append(n)
                    await stop(sim.circuit)
                    del task
                sim.run(driver())
            acc.execs += 1
            got = [d.get('value') for (_t, _n, _e, d) in log if d.get('value') != 0]
            for (_t, _n, _e, d) in log:
                if set(d) != {'previous', 'value', 'source', 'trigger'} or d.get('source') != 'src':
                    acc.violation('C16:ifoutput-data', f"IfOutput({ref!r}) is a gate only, but the "
                                  f"destination received {d}", cfg=cfg)
            acc.outcome(('ifoutput', ref_style, tuple(got)))
            acc.state(('ifoutput', ref_style))
            if got != exp:
                acc.violation('C16:ifoutput', f"IfOutput({ref!r}), control values {ctl_vals}: "
                              f"passed {got}, expected {exp}", cfg=cfg)
    # an uninitialised control block: events generated during start-up.  'ctl' has no
    # initialisation source of its own; 'kick' sends (1) a filtered event, (2) the event that
    # initialises 'ctl', (3) another filtered event - independent of the creation order.
    if nii is None:
        return
    for ref_style in ('object', 'name'):
        for flt_name in ('ifoutput', 'notifinit'):
            for ctl_first in (True, False):
                log = []
                with Sim() as sim:
                    pa = Probe('pa', log=log)
                    pb = Probe('pb', log=log)
                    mk = edzed.IfOutput if flt_name == 'ifoutput' else nii
                    ctl = edzed.Input('ctl') if ctl_first or ref_style == 'object' else None
                    ref = ctl if ref_style == 'object' else 'ctl'
                    kick = edzed.Input('kick', initdef=1, on_output=[
                        edzed.Event(pa, 'ev', efilter=mk(ref)),
                        edzed.Event('ctl', 'put'),
                        edzed.Event(pb, 'ev', efilter=mk(ref))])
                    if ctl is None:
                        ctl = edzed.Input('ctl')
                    state = {}

                    async def driver():
                        task = asyncio.create_task(sim.circuit.run_forever())
                        await sim.circuit.wait_init()
                        state['init'] = [n for (_t, n, _e, _d) in log]
                        edzed.ExtEvent(kick).send(0)
                        state['run'] = [n for (_t, n, _e, _d) in log][len(state['init']):]
                        await stop(sim.circuit)
                        del task
                    sim.run(driver())
                acc.execs += 1
                if flt_name == 'ifoutput':
                    exp = (['pb'], ['pa'])     # ctl: UNDEF, then 1 | 1, then 0
                else:
                    exp = (['pa'], [])         # ctl uninitialised only for the very first event
                got = (state['init'], state['run'])
                acc.outcome(('ctl-init', ref_style, flt_name, ctl_first, repr(got)))
                acc.state(('ctl-init', ref_style, flt_name))
                if got != exp:
                    acc.violation(f'C16:{flt_name}-init-state',
                                  f"{flt_name}({ref_style}): deliveries during start-up / after = "
                                  f"{got}, expected {exp}", cfg=cfg)


# ------------------------------------------------------------------ DataEdit

class Reject(Exception):
    pass


def make_ops(ctl, ctlval=None, ctl2='ctl2'):
    """
    -> (ops, names).  op = (name, build(f) -> filter, ref(dict) -> dict; may raise KeyError/Reject)
    ctl: control block (or its name) for add_output; ctlval: one-element list with its output.
    """
    DE = edzed.DataEdit

    def r_copy(src, dst):
        def ref(d):
            d = dict(d)
            d[dst] = d[src]
            return d
        return ref

    def r_rename(src, dst):
        def ref(d):
            d = dict(d)
            d[dst] = d[src]
            del d[src]
            return d
        return ref

    def r_delete(*keys):
        return lambda d: {k: v for k, v in d.items() if k not in keys}

    def r_permit(*keys):
        return lambda d: {k: v for k, v in d.items() if k in keys}

    def r_modify(key, func):
        def ref(d):
            d = dict(d)
            new = func(d[key])
            if new is DE.REJECT:
                raise Reject
            if new is DE.DELETE:
                del d[key]
            else:
                d[key] = new
            return d
        return ref
    plus10 = lambda v: v + 10               # noqa: E731
    todel = lambda v: DE.DELETE             # noqa: E731
    torej = lambda v: DE.REJECT             # noqa: E731
    rej2 = lambda v: DE.REJECT if v == 2 else v     # noqa: E731
    ops = [
        ('add(a=9)', lambda f: f.add(a=9), lambda d: {**d, 'a': 9}),
        ('add(c=9)', lambda f: f.add(c=9), lambda d: {**d, 'c': 9}),
        ('add(a=8,b=8)', lambda f: f.add(a=8, b=8), lambda d: {**d, 'a': 8, 'b': 8}),
        ('setdefault(a=7)', lambda f: f.setdefault(a=7), lambda d: {'a': 7, **d}),
        ('setdefault(b=7,c=7)', lambda f: f.setdefault(b=7, c=7), lambda d: {'b': 7, 'c': 7, **d}),
        ("copy('a','b')", lambda f: f.copy('a', 'b'), r_copy('a', 'b')),
        ("copy('a','c')", lambda f: f.copy('a', 'c'), r_copy('a', 'c')),
        ("copy('c','a')", lambda f: f.copy('c', 'a'), r_copy('c', 'a')),
        ("rename('a','b')", lambda f: f.rename('a', 'b'), r_rename('a', 'b')),
        ("rename('b','c')", lambda f: f.rename('b', 'c'), r_rename('b', 'c')),
        ("rename('c','a')", lambda f: f.rename('c', 'a'), r_rename('c', 'a')),
        ("delete('a')", lambda f: f.delete('a'), r_delete('a')),
        ("delete('c')", lambda f: f.delete('c'), r_delete('c')),
        ("delete('a','b')", lambda f: f.delete('a', 'b'), r_delete('a', 'b')),
        ("permit('a')", lambda f: f.permit('a'), r_permit('a')),
        ("permit('b','c')", lambda f: f.permit('b', 'c'), r_permit('b', 'c')),
        ("permit()", lambda f: f.permit(), r_permit()),
        ("modify('a',+10)", lambda f: f.modify('a', plus10), r_modify('a', plus10)),
        ("modify('b',DELETE)", lambda f: f.modify('b', todel), r_modify('b', todel)),
        ("modify('a',REJECT)", lambda f: f.modify('a', torej), r_modify('a', torej)),
        ("modify('b',REJECT if 2)", lambda f: f.modify('b', rej2), r_modify('b', rej2)),
        ("modify('c',+10)", lambda f: f.modify('c', plus10), r_modify('c', plus10)),
        ("add_output('b',ctl)", lambda f: f.add_output('b', ctl),
         lambda d: {**d, 'b': ctlval[0]}),
        # the same key once more, from another block (chains: add_output, rename / copy, add_output)
        ("add_output('b',ctl2)", lambda f: f.add_output('b', ctl2),
         lambda d: {**d, 'b': 50}),
        # a result that is equal to the old value but not the same (1 -> 1.0)
        ("modify('a',float)", lambda f: f.modify('a', float), r_modify('a', float)),
    ]
    return ops, [o[0] for o in ops]


def input_dicts():
    out = [{}]
    for a in (1, 2):
        out.append({'a': a})
    for b in (1, 2):
        out.append({'b': b})
    for a in (1, 2):
        for b in (1, 2):
            out.append({'a': a, 'b': b})
    return out


def ref_chain(chain, d):
    """-> ('ok', dict) | ('reject',) | ('raise',)"""
    d = dict(d)
    for (_name, _build, ref) in chain:
        try:
            d = ref(d)
        except Reject:
            return ('reject',)
        except KeyError:
            return ('raise',)
    return ('ok', d)


def build_chain(chain, style):
    DE = edzed.DataEdit
    if style == 'stmt':
        # built by separate statements on one explicitly created instance (results ignored)
        flt = DE()
        for (_name, build, _ref) in chain:
            build(flt)
        return flt
    flt = DE if style == 'cls' else DE()
    for (_name, build, _ref) in chain:
        flt = build(flt)
    return flt


def eval_filter(flt, d):
    try:
        res = flt(dict(d))
    except Exception as err:    # pylint: disable=broad-except
        return ('raise', type(err).__name__)
    if isinstance(res, dict):
        return ('ok', res)
    if not res:
        return ('reject',)
    return ('odd', repr(res))


def same_result(got, exp):
    if got[0] != exp[0]:
        return False
    if got[0] != 'ok':
        return True
    # equal dictionaries whose values are also of the same type (1 is not 1.0)
    return got[1] == exp[1] and all(type(got[1][k]) is type(exp[1][k]) for k in exp[1])


def run_dataedit(cfg, acc):
    inputs = input_dicts()
    with Sim() as sim:
        ctl = edzed.Input('ctl', initdef=5)
        ctl2 = edzed.Input('ctl2', initdef=50)
        ctlval = [5]
        ops, names = make_ops(ctl, ctlval, ctl2)
        ops_n, _ = make_ops('ctl', ctlval, 'ctl2')      # add_output by name
        depth = cfg['depth']
        lead = [ops[cfg['first']]] if cfg['second'] is None else [ops[cfg['first']], ops[cfg['second']]]
        chains = []
        for extra in range(0, depth - len(lead) + 1):
            for tail in itertools.product(range(len(ops)), repeat=extra):
                chains.append(lead + [ops[i] for i in tail])
        if cfg['second'] is not None:
            chains = [c for c in chains if len(c) >= 2]
        built = []
        for chain in chains:
            has_out = any('add_output' in c[0] for c in chain)
            styles = ('cls', 'inst', 'stmt')
            for style in styles:
                built.append((chain, style, build_chain(chain, style), has_out))
            if has_out:
                chain_n = [ops_n[names.index(c[0])] for c in chain]
                built.append((chain, 'cls-byname', build_chain(chain_n, 'cls'), True))

        async def driver():
            task = asyncio.create_task(sim.circuit.run_forever())
            await sim.circuit.wait_init()
            for rnd in (0, 1):
                for chain, style, flt, has_out in built:
                    if rnd == 1 and not has_out:
                        continue
                    cname = tuple(c[0] for c in chain)
                    # one filter object serves all deliveries: results must not depend on the past
                    for d in (inputs if rnd == 0 else reversed(inputs)):
                        acc.execs += 1
                        exp = ref_chain(chain, d)
                        got = eval_filter(flt, d)
                        if not same_result(got, exp):
                            acc.violation(
                                'C16:dataedit-chain',
                                f"DataEdit chain {'.'.join(cname)} ({style}) on {d}: {got}, "
                                f"expected {exp}", cfg=cfg,
                                detail={'chain': cname, 'input': d, 'style': style})
                    acc.distinct += len(inputs)
                if rnd == 0:
                    edzed.ExtEvent(ctl).send(6)
                    ctlval[0] = 6
            await stop(sim.circuit)
            del task
        sim.run(driver())
        acc.count('dataedit_chains', len(chains))
        acc.state(('dataedit', cfg['first'], cfg['second']))
        acc.sample({'kind': 'dataedit', 'chain': [c[0] for c in chains[-1]], 'input': inputs[-1],
                    'expected': repr(ref_chain(chains[-1], inputs[-1]))}, limit=2)


def run_dataedit_pairs(cfg, acc):
    """Filters built separately (interleaved construction) share no state."""
    inputs = input_dicts()
    with Sim() as sim:
        ctl = edzed.Input('ctl', initdef=5)
        edzed.Input('ctl2', initdef=50)
        ops, _names = make_ops(ctl, [5])
        sel = [0, 3, 5, 8, 11, 14, 17, 19, 22]
        chains = [[ops[i]] for i in sel] + [[ops[i], ops[j]] for i in sel for j in sel]
        DE = edzed.DataEdit
        pairs = []
        for c1 in chains:
            for c2 in chains[::7]:
                # interleave the construction steps of the two filters
                f1 = c1[0][1](DE)
                f2 = c2[0][1](DE)
                if len(c1) > 1:
                    f1 = c1[1][1](f1)
                if len(c2) > 1:
                    f2 = c2[1][1](f2)
                pairs.append((c1, f1, c2, f2))

        async def driver():
            task = asyncio.create_task(sim.circuit.run_forever())
            await sim.circuit.wait_init()
            for c1, f1, c2, f2 in pairs:
                for d in inputs:
                    acc.execs += 2
                    for chain, flt in ((c1, f1), (c2, f2)):
                        exp = ref_chain(chain, d)
                        got = eval_filter(flt, d)
                        if not same_result(got, exp):
                            acc.violation(
                                'C16:dataedit-shared-state',
                                f"filters {[c[0] for c in c1]} and {[c[0] for c in c2]} built "
                                f"side by side: {[c[0] for c in chain]} on {d} gave {got}, "
                                f"expected {exp}", cfg=cfg)
                acc.distinct += len(inputs)
            await stop(sim.circuit)
            del task
        sim.run(driver())
        acc.state(('dataedit-pairs',))
        acc.count('dataedit_pairs', len(pairs))


def run_dataedit_pipe(cfg, acc):
    """Chains <= 2 delivered through the real Event.send: the probe sees the reference data."""
    inputs = input_dicts()
    log = []
    with Sim() as sim:
        probe = Probe('probe', log=log)
        ctl = edzed.Input('ctl', initdef=5)
        edzed.Input('ctl2', initdef=50)
        src = edzed.Input('src', initdef=0)
        ops, _names = make_ops('ctl', [5])
        chains = [[o] for o in ops] + [[o1, o2] for o1 in ops for o2 in ops]
        events = [(chain, edzed.Event(probe, 'ev', efilter=build_chain(chain, 'cls')))
                  for chain in chains]

        async def driver():
            task = asyncio.create_task(sim.circuit.run_forever())
            await sim.circuit.wait_init()
            for chain, ev in events:
                for d in inputs:
                    acc.execs += 1
                    acc.distinct += 1
                    exp = ref_chain(chain, {**d, 'source': 'src'})
                    n0 = len(log)
                    try:
                        ret = ev.send(src, **d)
                        got = ('ok', log[n0][3]) if ret else ('reject',)
                        if bool(ret) != (len(log) > n0):
                            got = ('odd', f"send() returned {ret!r}, deliveries {len(log) - n0}")
                    except Exception as err:    # pylint: disable=broad-except
                        got = ('raise', type(err).__name__)
                        if len(log) > n0:
                            got = ('odd', 'raised after delivery')
                    if not same_result(got, exp):
                        acc.violation('C16:dataedit-through-event',
                                      f"Event(efilter=DataEdit.{'.'.join(c[0] for c in chain)})"
                                      f".send(**{d}): {got}, expected {exp}", cfg=cfg)
                    if sim.circuit.error is not None:
                        raise RuntimeError(f"simulation died: {sim.circuit.error!r}")
            await stop(sim.circuit)
            del task
        sim.run(driver())
        acc.state(('dataedit-pipe',))


# ------------------------------------------------------------------ pipelines

FKINDS = ['new', 'newdrop', 'mut', 'mutret', 'true1', 'truestr', 'truelist', 'trueobj',
          'False', 'None', '0', "''", '[]', '()', '0.0', 'empty', 'badkey', 'edit', 'nfu',
          'delx', 'chainmap', 'userdict', 'emptyud']
FALSY = {'False': False, 'None': None, '0': 0, "''": '', '[]': [], '()': (), '0.0': 0.0}
TRUTHY = {'true1': 1, 'truestr': 'yes', 'truelist': [0], 'trueobj': object()}


def make_filter(kind, pos, seen):
    """-> (callable, ref(data) -> ('data', newdata) | ('reject',) | ('raise',))"""
    tagk = f"{kind}{pos}"

    def logit(data):
        seen.append((pos, kind, dict(data)))
    if kind == 'new':
        def f(data):
            logit(data)
            return {**data, 'n' + str(pos): pos}
        return f, lambda d: ('data', {**d, 'n' + str(pos): pos})
    if kind == 'newdrop':
        def f(data):
            logit(data)
            return {k: v for k, v in data.items() if k not in ('x', 'source')}
        return f, lambda d: ('data', {k: v for k, v in d.items() if k not in ('x', 'source')})
    if kind == 'mut':
        def f(data):
            logit(data)
            data['m' + str(pos)] = pos
            return True
        return f, lambda d: ('data', {**d, 'm' + str(pos): pos})
    if kind == 'mutret':
        def f(data):
            logit(data)
            data['value'] = (data.get('value'), pos)
            return data
        return f, lambda d: ('data', {**d, 'value': (d.get('value'), pos)})
    if kind in TRUTHY:
        def f(data):
            logit(data)
            return TRUTHY[kind]
        return f, lambda d: ('data', d)
    if kind in FALSY:
        def f(data):
            logit(data)
            return FALSY[kind]
        return f, lambda d: ('reject',)
    if kind == 'empty':
        def f(data):
            logit(data)
            return {}
        return f, lambda d: ('data', {})
    if kind == 'chainmap':     # a MutableMapping that is not a dict (documented: "precisely a MutableMapping")
        def f(data):
            logit(data)
            return collections.ChainMap({**data, 'c' + str(pos): pos}, {'unseen': 0})
        return f, lambda d: ('data', {'unseen': 0, **d, 'c' + str(pos): pos})
    if kind == 'userdict':
        def f(data):
            logit(data)
            return collections.UserDict({k: v for k, v in data.items() if k != 'x'}, u=pos)
        return f, lambda d: ('data', {**{k: v for k, v in d.items() if k != 'x'}, 'u': pos})
    if kind == 'emptyud':
        def f(data):
            logit(data)
            return collections.UserDict()
        return f, lambda d: ('data', {})
    if kind == 'badkey':
        def f(data):
            logit(data)
            return {**data, 5: 1}
        return f, lambda d: ('raise',)
    if kind == 'edit':
        inner = edzed.DataEdit.add(e=tagk).delete('gone')

        def f(data):
            logit(data)
            return inner(data)
        return f, lambda d: ('data', {**{k: v for k, v in d.items() if k != 'gone'}, 'e': tagk})
    if kind == 'nfu':
        def f(data):
            logit(data)
            return edzed.not_from_undef(data)
        return f, lambda d: ('data', d) if d.get('previous', UNDEF) is not UNDEF else ('reject',)
    if kind == 'delx':
        def f(data):
            logit(data)
            data.pop('previous', None)
            return 1
        return f, lambda d: ('data', {k: v for k, v in d.items() if k != 'previous'})
    raise ValueError(kind)


def run_pipeline(cfg, acc):
    first = cfg['first']
    if first is None:
        seqs = [()]
    else:
        seqs = [(first,)] + [(first, j) for j in range(len(FKINDS))] + \
               [(first, j, k) for j in range(len(FKINDS)) for k in range(len(FKINDS))]
    log = []
    seen = []
    with Sim() as sim:
        probe = Probe('probe', log=log)
        src = edzed.Input('src', initdef=0)
        items = []
        for seq in seqs:
            fl = [make_filter(FKINDS[k], pos, seen) for pos, k in enumerate(seq)]
            filters = [f for f, _r in fl]
            # ('gen' / 'iter': one-shot iterators are deprecated as filter lists, but accepted)
            for style in ('list', 'gen') if len(seq) != 1 else ('list', 'single', 'tuple', 'gen', 'iter'):
                arg = (filters if style == 'list' else filters[0] if style == 'single'
                       else (f for f in filters) if style == 'gen' else iter(list(filters)) if style == 'iter'
                       else tuple(filters))
                if not seq:
                    arg = None
                items.append((seq, [r for _f, r in fl], edzed.Event(probe, 'ev', efilter=arg)))

        async def driver():
            task = asyncio.create_task(sim.circuit.run_forever())
            await sim.circuit.wait_init()
            base = {'value': 1, 'previous': 0, 'x': 'X', 'gone': 'G', 'trigger': 'output'}
            for seq, refs, ev in items:
                names = [FKINDS[k] for k in seq]
                for delivery in (0, 1):
                    data = dict(base, previous=UNDEF if delivery else 0, dn=delivery)
                    acc.execs += 1
                    # reference pipeline
                    cur = {**data, 'source': 'src'}
                    exp_seen = []
                    outcome = 'deliver'
                    for pos, ref in enumerate(refs):
                        exp_seen.append((pos, names[pos], dict(cur)))
                        r = ref(cur)
                        if r[0] == 'data':
                            cur = r[1]
                        else:
                            outcome = r[0]
                            break
                    n0 = len(log)
                    del seen[:]
                    try:
                        ret = ev.send(src, **data)
                        got = 'deliver' if ret is True else 'reject' if ret is False else f'ret={ret!r}'
                    except TypeError:
                        got = 'raise'
                    except Exception as err:    # pylint: disable=broad-except
                        got = f'raised {err!r}'
                    acc.outcome(('pipe', tuple(names), delivery, got))
                    what = f"pipeline {names}, delivery #{delivery}"
                    if got != outcome:
                        acc.violation('C16:pipeline-result',
                                      f"{what}: send() -> {got}, expected {outcome}", cfg=cfg,
                                      detail={'filters': names})
                    if seen != exp_seen:
                        acc.violation('C16:pipeline-filter-saw',
                                      f"{what}: filters saw {seen}, expected {exp_seen}", cfg=cfg,
                                      detail={'filters': names})
                    delivered = log[n0:]
                    if outcome == 'deliver':
                        if len(delivered) != 1 or delivered[0][3] != cur or delivered[0][2] != 'ev':
                            acc.violation('C16:pipeline-destination-data',
                                          f"{what}: destination got {[(x[2], x[3]) for x in delivered]}, "
                                          f"expected one 'ev' with {cur}", cfg=cfg,
                                          detail={'filters': names})
                    elif delivered:
                        acc.violation('C16:pipeline-delivered-after-veto',
                                      f"{what}: destination got {[(x[2], x[3]) for x in delivered]} "
                                      f"although the pipeline ended with {outcome}", cfg=cfg,
                                      detail={'filters': names})
                    if sim.circuit.error is not None:
                        raise RuntimeError(f"simulation died: {sim.circuit.error!r}")
            await stop(sim.circuit)
            del task
        sim.run(driver())
    acc.state(('pipeline', first))
    acc.sample({'kind': 'pipeline', 'filters': [FKINDS[k] for k in seqs[-1]]}, limit=2)


def run_fanout(cfg, acc):
    """One output change, several Events: an editing filter of one must not leak into another."""
    for order in itertools.permutations(range(3)):
        log = []
        with Sim() as sim:
            probes = [Probe(f'p{i}', log=log) for i in range(3)]

            def mut(data):
                data['value'] = 'edited'
                data['extra'] = 1
                return True

            def rej(data):
                data['value'] = 'rejected'
                return None
            flts = [mut, rej, None]
            evs = [edzed.Event(probes[i], 'ev', efilter=flts[i]) for i in order]
            src = edzed.Input('src', initdef=0, on_output=evs, on_every_output=list(evs))

            async def driver():
                task = asyncio.create_task(sim.circuit.run_forever())
                await sim.circuit.wait_init()
                edzed.ExtEvent(src).send(7)
                await stop(sim.circuit)
                del task
            sim.run(driver())
        acc.execs += 1
        exp = []
        for prev, val in ((UNDEF, 0), (0, 7)):
            for _rep in (0, 1):
                for i in order:
                    if i == 0:
                        exp.append(('p0', 'edited', prev, 1))
                    elif i == 2:
                        exp.append(('p2', val, prev, None))
        got = [(n, d.get('value'), d.get('previous'), d.get('extra')) for (_t, n, _e, d) in log]
        acc.outcome(('fanout', order, repr(got)))
        acc.state(('fanout', order))
        if got != exp:
            acc.violation('C16:data-shared-between-deliveries',
                          f"Events in order {order} (0 edits in place, 1 edits and rejects, 2 plain): "
                          f"destinations saw {got}, expected {exp}", cfg=cfg)


def run_config(cfg):
    acc = Acc()
    kind = cfg['kind']
    {'edge': run_edge, 'nfu': run_nfu, 'delta': run_delta, 'delta-pair': run_delta_pair,
     'delta-pipe': run_delta_pipe, 'ifoutput': run_ifoutput, 'dataedit': run_dataedit,
     'dataedit-pairs': run_dataedit_pairs, 'dataedit-pipe': run_dataedit_pipe,
     'pipeline': run_pipeline, 'fanout': run_fanout}[kind](cfg, acc)
    return acc

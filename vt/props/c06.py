"""
C06 - saved state always matches the last completed event and survives a restart.

Crash-point enumeration: for every event history (incl. time advances and a failing
handler) of a persistent block the storage mapping is deep-copied after initialisation,
after every event and after the regular stop (+ failed start-ups).  Every snapshot must
equal the live block's state; for every snapshot x downtime a second circuit with the
same definitions is started from a copy at crash time + downtime and compared with the
state recorded at the snapshot (differential oracle), incl. the absolute expiry time of
FSM timers, 'expiration' and removal of unused keys.
"""
from __future__ import annotations

import asyncio
import copy
import itertools

import edzed

from ..explore import Acc
from ..harness import Sim, TICK, stop

PROPERTY = 'C06'
LEVEL = 'fault_enumeration'
LEVEL_TEXT = ("Exhaustive crash-point enumeration on the real code: every event history up to length "
              "3 (quick) / 4 (thorough) over each block type's alphabet (Input, Counter, timed FSM incl. rejected timed events, Timer, InputExp, TimeDate, TimeSpan; unknown / malformed events included) x sync_state x expiration; "
              "storage snapshot after init, after every event, after stop and after failed start-ups; "
              "each snapshot is compared with the live state and then used to restart a second circuit "
              "at crash time + every downtime class, which is compared with the recorded state.")
LEVEL_NOTE = ("Storage = dict, serialisation modelled by deep copy; crash = the process disappears "
              "between two events (storage as of the last write); virtual wall clock; downtime classes "
              "{0, shorter, longer than the remaining timer}, expiration {None, 0, shorter, longer}.")
TECHNIQUE = "exhaustive crash-point / history enumeration on the implementation with restart replay (differential oracle)"
RULE = ("config = block type x sync_state x expiration x event history; crash points = snapshots after "
        "every step; evaluations = first runs + restarts; outcome = (config, snapshot, downtime, "
        "restored state); distinct = distinct tuples")
ASSUMPTIONS = ["storage writes are atomic per key (dict assignment)",
               "a state whose timer expires exactly at the restart instant may be kept or discarded"]

UNDEF = edzed.UNDEF
BASE_US = 1_000_000_000_000
ELOG = []       # enter-action log (restart must not replay entry actions)


class Bomb(edzed.SBlock):
    """Destination whose handler fails for a particular value."""

    def init_regular(self):
        self.set_output(0)

    def _event_put(self, *, value, **_data):
        if value in ('boom', 13):
            raise RuntimeError("bomb")
        return True


class FailStart(edzed.SBlock):
    def init_regular(self):
        self.set_output(0)

    def start(self):
        super().start()
        raise RuntimeError("start failed")


class FailTask(edzed.AddonMainTask, edzed.SBlock):
    """Its main task (created by start()) fails at the first step."""

    def init_regular(self):
        self.set_output(0)

    async def _maintask(self):
        raise RuntimeError("main task failed")


class NeverInit(edzed.SBlock):
    """Cannot be initialised: the start-up fails after all start() calls."""

    def init_regular(self):
        pass


class GenT(edzed.FSM):
    STATES = ['a', 'b']
    EVENTS = [('go', None, 'b'), ('back', 'b', 'a'), ('tmo', 'b', 'a'), ('bad', None, 'a'),
              ('poke', None, 'a')]
    TIMERS = {'b': (3, 'tmo')}

    def enter_b(self):
        self.sdata['n'] = self.sdata.get('n', 0) + 1
        # 'hold': the timed event of this state will be rejected by cond_tmo
        self.sdata['hold'] = bool(edzed.fsm_event_data.get().get('hold'))
        ELOG.append(('enter_b', self.name))

    def cond_tmo(self):
        return not self.sdata.get('hold')

    def cond_poke(self):
        # a rejected event that nevertheless alters the internal state (in place)
        self.sdata['poked'] = not self.sdata.get('poked', False)
        return False

    def enter_a(self):
        ELOG.append(('enter_a', self.name))
        if edzed.fsm_event_data.get().get('boom'):
            raise RuntimeError("enter_a failed")


class SnapshotDict(dict):
    """
    Storage that keeps a copy of what was written, like the recommended shelve (which pickles
    the value): later in-place changes of the written object do not reach the storage.
    """
    def __setitem__(self, key, value):
        super().__setitem__(key, copy.deepcopy(value))


BLOCKS = ['Input', 'Counter', 'GenT', 'Timer', 'InputExp', 'TimeDate', 'TimeSpan']

# the virtual wall clock starts at 2001-09-09 01:46:40 (a Sunday)
TD_ARGS = {
    'A': dict(times=[[[1, 0, 0, 0], [3, 0, 0, 0]]]),
    'B': dict(times=[[[3, 0, 0, 0], [4, 0, 0, 0]], [[1, 46, 41, 0], [1, 46, 43, 500000]]], weekdays=[7],
              dates=[[[9, 1], [9, 30]]]),
    'none': dict(),
    'S1': dict(span=[[[2001, 9, 9, 1, 0, 0, 0], [2001, 9, 9, 1, 46, 42, 0]]]),
    'S2': dict(span=[[[1999, 1, 1, 0, 0, 0, 0], [1999, 1, 2, 0, 0, 0, 0]],
                     [[2001, 9, 9, 1, 46, 44, 0], [2030, 1, 1, 0, 0, 0, 0]]]),
    'empty': dict(span=[]),
}


def alphabet(kind):
    # ('nosuch', None): unknown event type, ('put', 'novalue'): missing parameter - both are only
    # reported to the caller; the block keeps working and keeps saving its state
    if kind == 'Input':
        return [('put', 1), ('put', 2), ('put', 9), ('put', 'boom'), ('nosuch', None), ('put', 'novalue'),
                ('put', 'NONE')]      # the value None (a state that must not be mistaken for "nothing saved")
    if kind == 'Counter':
        return [('inc', None), ('put', 12), ('dec', None), ('put', 13), ('nosuch', None)]
    if kind == 'GenT':
        return [('go', None), ('go', 6), ('back', None), ('tick',), ('to_expiry',), ('bad', 'boom'),
                ('go', 'hold'), ('nosuch', None), ('poke', None)]
    if kind == 'Timer':
        return [('start', None), ('start', 6), ('stop', None), ('tick',), ('to_expiry',)]
    if kind == 'TimeDate':
        return [('reconfig', 'A'), ('reconfig', 'B'), ('reconfig', 'none'), ('tick',), ('nosuch', None)]
    if kind == 'TimeSpan':
        return [('reconfig', 'S1'), ('reconfig', 'S2'), ('reconfig', 'empty'), ('tick',), ('nosuch', None)]
    return [('put', None), ('put', 6), ('tick',), ('to_expiry',)]


def configs(tier):
    out = []
    maxlen = 3 if tier == 'quick' else 4
    for kind in BLOCKS:
        al = alphabet(kind)
        for sync in (1, 0):
            for exp in (None, 0, 2, 50):
                if tier == 'quick' and sync == 0 and exp not in (None, 2):
                    continue
                for ln in range(0, maxlen + 1):
                    for hist in itertools.product(range(len(al)), repeat=ln):
                        # a failing handler ends the simulation: nothing may follow it
                        bad = [i for i, k in enumerate(hist) if al[k][1:] in (('boom',), (13,))]
                        if bad and bad[0] != ln - 1:
                            continue
                        if tier == 'quick' and ln == 3 and (sync == 0 or exp in (0, 50)):
                            continue
                        out.append(dict(mode='hist', kind=kind, sync=sync, exp=exp, hist=list(hist)))
    for fs in ('start', 'task', 'noinit'):
        for pos in (0, 1):
            out.append(dict(mode='failstart', fail=fs, pos=pos))
    # three releases of an application over one storage: the second one has no persistent block
    # (none at all / persistence switched off): entries of blocks that no longer exist are
    # removed at start all the same, reserved entries are kept
    for variant in ('no-capable-block', 'persistence-off', 'other-block-only'):
        out.append(dict(mode='releases', variant=variant))
    # the restored state differs from the stored entry (the modulo of a Counter changed between
    # two releases): after the initialisation the storage holds the state the block really has
    for m1, m2, val in ((20, 5, 17), (None, 7, 30), (10, 10, 4)):
        out.append(dict(mode='modulo-changed', m1=m1, m2=m2, val=val))
    # restart with start-up traffic: another block's first output sends an event (plain, filtered
    # out, conditional resolving to 'no event') to the persistent block before / after its restore
    for kind in BLOCKS[:5]:
        for ev in ('none', 'cond-none', 'cond-put', 'filtered', 'plain') + (('rejected',) if kind == 'Input' else ()):
            for order in (0, 1):
                for srcval in (False, True):
                    out.append(dict(mode='traffic', kind=kind, ev=ev, order=order, srcval=srcval))
    return out


def make_blocks(kind, sync, exp):
    """The circuit definition (used for the first run and for every restart)."""
    bomb = Bomb('bomb')
    kw = dict(persistent=True, sync_state=bool(sync), expiration=exp)
    if kind == 'Input':
        blk = edzed.Input('blk', initdef=0, allowed=[0, 1, 2, 'boom', None],
                          on_output=edzed.Event(bomb, 'put'), **kw)
    elif kind == 'Counter':
        blk = edzed.Counter('blk', modulo=20, initdef=3, on_output=edzed.Event(bomb, 'put'), **kw)
    elif kind == 'GenT':
        blk = GenT('blk', **kw)
    elif kind == 'Timer':
        blk = edzed.Timer('blk', t_on=3, **kw)
    elif kind == 'TimeDate':
        blk = edzed.TimeDate('blk', **TD_ARGS['A'], **kw)
    elif kind == 'TimeSpan':
        blk = edzed.TimeSpan('blk', **TD_ARGS['S1'], **kw)
    else:
        blk = edzed.InputExp('blk', duration=3, expired='EXP', initdef='iv', **kw)
    aux = edzed.Counter('aux', persistent=True, initdef=7)
    return blk, aux


def live_state(blk):
    return copy.deepcopy(blk.get_state()), copy.deepcopy(blk.output)


def same_state(a, b):
    """Compare two get_state() values; FSM timer expirations within 1 ms."""
    if isinstance(a, tuple) and isinstance(b, tuple) and len(a) == 3 and len(b) == 3:
        if a[0] != b[0] or a[2] != b[2]:
            return False
        if a[1] is None or b[1] is None:
            return a[1] is None and b[1] is None
        return abs(a[1] - b[1]) < 1e-3
    return a == b


def first_run(cfg):
    """Run the history, return snapshots [(label, storage copy, truth, wall_us)] and problems."""
    kind, sync, exp = cfg['kind'], cfg['sync'], cfg['exp']
    al = alphabet(kind)
    snaps, viol = [], []
    storage = SnapshotDict({"<Counter 'gone'>": 5, 'edzed-foo': 'keep', 'other-key': 1})
    del ELOG[:]
    with Sim(base_unix_us=BASE_US, cron=True) as sim:
        loop = sim.loop
        blk, aux = make_blocks(kind, sync, exp)
        sim.circuit.set_persistent_data(storage)
        failed = {'flag': False, 'entry': None}

        def wall():
            return BASE_US + loop.now_us

        current = {'cfg': 'A' if kind == 'TimeDate' else 'S1'}

        def ref_td_state():
            """Normal form of the current configuration, straight from the arguments."""
            args = TD_ARGS[current['cfg']]
            if kind == 'TimeSpan':
                return sorted(copy.deepcopy(args['span']))
            return {'times': None if 'times' not in args else sorted(copy.deepcopy(args['times'])),
                    'dates': None if 'dates' not in args else sorted(copy.deepcopy(args['dates'])),
                    'weekdays': None if 'weekdays' not in args else sorted(args['weekdays'])}

        def snap(label, truth=None):
            st = copy.deepcopy(storage)
            if truth is None:
                try:
                    truth = live_state(blk)
                except Exception:   # pylint: disable=broad-except
                    pass
            if kind in ('TimeDate', 'TimeSpan') and truth is not None and truth[0] != ref_td_state():
                viol.append(('state-is-not-the-configuration',
                             f"{label}: get_state() = {truth[0]!r}, configured {ref_td_state()!r}"))
            snaps.append((label, st, truth, wall(), live_state(aux)))
            fresh = sync or label in ('init', 'stop')      # otherwise the storage may be stale
            for what, val in (('block state', truth[0] if truth else None),
                              ('storage', st.get(blk.key) if fresh and not failed['flag'] else None)):
                if (isinstance(val, (tuple, list)) and len(val) == 3 and val[1] is not None
                        and val[1] < wall() / 1e6 - 1e-3):
                    viol.append(('saved-timer-already-expired',
                                 f"{label}: {what} {val!r} reports a timer that expired before "
                                 f"now={wall() / 1e6}"))
            if failed['flag']:
                if st.get(blk.key) != failed['entry']:
                    viol.append(('written-after-failed-handler',
                                 f"{label}: entry {st.get(blk.key)!r}, before the failure {failed['entry']!r}"))
            elif (sync or label in ('init', 'stop')) and truth is not None:
                if blk.key not in st or not same_state(st[blk.key], truth[0]):
                    viol.append(('storage-differs-from-state',
                                 f"{label}: storage {st.get(blk.key)!r}, block state {truth[0]!r}"))

        async def driver():
            task = asyncio.create_task(sim.circuit.run_forever())
            await sim.circuit.wait_init()
            await loop.idle()
            if "<Counter 'gone'>" in storage or 'other-key' in storage:
                viol.append(('unused-entry-not-removed', repr(sorted(storage))))
            if storage.get('edzed-foo') != 'keep':
                viol.append(('reserved-entry-removed', repr(sorted(storage))))
            snap('init')
            if not sync:
                # after init every persistent block is saved once
                pass
            for n, k in enumerate(cfg['hist']):
                sym = al[k]
                if sym[0] == 'tick':
                    await loop.sleep_until_us(loop.now_us + TICK)
                elif sym[0] == 'to_expiry':
                    gs = blk.get_state()
                    if gs[1] is None:
                        await loop.sleep_until_us(loop.now_us + TICK)
                    else:
                        await loop.sleep_until_us(round(gs[1] * 1e6) - BASE_US)
                else:
                    data = {}
                    if kind in ('TimeDate', 'TimeSpan'):
                        if sym[0] == 'reconfig':
                            data = copy.deepcopy(TD_ARGS[sym[1]])
                            current['cfg'] = sym[1]
                    elif kind in ('Input', 'Counter'):
                        if sym[1] is not None and sym[1] != 'novalue':
                            data['value'] = None if sym[1] == 'NONE' else sym[1]
                    elif kind == 'InputExp':
                        data['value'] = f"v{n}"
                        if sym[1] is not None:
                            data['duration'] = sym[1]
                    elif sym[1] == 'boom':
                        data['boom'] = True
                    elif sym[1] == 'hold':
                        data['hold'] = True
                    elif sym[1] is not None:
                        data['duration'] = sym[1]
                    before = copy.deepcopy(storage.get(blk.key))
                    try:
                        edzed.ExtEvent(blk, sym[0]).send(**data)
                    except Exception:   # pylint: disable=broad-except
                        if not sim.circuit.is_ready():
                            failed['flag'] = True
                            failed['entry'] = before
                await loop.idle()
                snap(f"ev{n}")
                if failed['flag']:
                    break
            t_stop = wall()
            pre = None
            try:
                pre = live_state(blk)
            except Exception:   # pylint: disable=broad-except
                pass
            await stop(sim.circuit)
            snap('stop', pre)
            st = snaps[-1][1]
            ts = st.get('edzed-stop-time')
            if not isinstance(ts, float) or abs(ts - t_stop / 1e6) > 1e-3:
                viol.append(('stop-timestamp', f"edzed-stop-time {ts!r}, stopped at {t_stop / 1e6}"))
            if aux.key not in st or st[aux.key] != 7:
                viol.append(('not-saved-at-stop', f"aux entry {st.get(aux.key)!r}"))
            del task
        try:
            sim.run(driver())
        except Exception as err:    # pylint: disable=broad-except
            viol.append(('driver-died', repr(err)))
    return snaps, viol, failed['flag']


def key_of(kind):
    return "<%s 'blk'>" % kind


def restart(cfg, storage, wall_us):
    """Start the same definitions from a storage copy at the given wall time."""
    kind, sync, exp = cfg['kind'], cfg['sync'], cfg['exp']
    res = {}
    del ELOG[:]
    start_us = 777 * TICK
    with Sim(start_us=start_us, base_unix_us=wall_us - start_us, cron=True) as sim:
        loop = sim.loop
        blk, aux = make_blocks(kind, sync, exp)
        st = copy.deepcopy(storage)
        twin = None
        saved = st.get(key_of(kind))
        if kind == 'TimeDate' and isinstance(saved, dict):
            twin = edzed.TimeDate('twin', **copy.deepcopy(saved))
        elif kind == 'TimeSpan' and isinstance(saved, list):
            twin = edzed.TimeSpan('twin', span=copy.deepcopy(saved))
        sim.circuit.set_persistent_data(st)

        async def driver():
            task = asyncio.create_task(sim.circuit.run_forever())
            try:
                await sim.circuit.wait_init()
            except Exception as err:    # pylint: disable=broad-except
                res['err'] = repr(err)
                return
            res['state'], res['out'] = live_state(blk)
            if twin is not None:
                res['twin_out'] = twin.output
            res['aux'] = live_state(aux)
            res['elog'] = list(ELOG)
            # follow the restored timer to its expiry: when does the state change?
            gs = blk.get_state()
            if isinstance(gs, tuple) and gs[1] is not None:
                s0 = gs[0]
                target = round(gs[1] * 1e6) - (wall_us - start_us)
                await loop.sleep_until_us(target - 1000)
                await loop.idle()
                res['before_expiry'] = blk.get_state()[0]
                await loop.sleep_until_us(target + 1000)
                await loop.idle()
                res['after_expiry'] = blk.get_state()[0]
                res['s0'] = s0
            await stop(sim.circuit)
            del task
        sim.run(driver())
    return res


def default_state(kind):
    """State after a normal initialisation (no restore)."""
    if kind == 'TimeDate':
        return (edzed.TimeDate.parse(TD_ARGS['A'].get('times'), None, None), None)
    if kind == 'TimeSpan':
        return (edzed.TimeSpan.parse(TD_ARGS['S1']['span']), None)
    return {'Input': (0, 0), 'Counter': (3, 3), 'GenT': (('a', None, {}), 'a'),
            'Timer': (('off', None, {}), False),
            'InputExp': (None, None)}[kind]


def run_releases(cfg, acc):
    storage = SnapshotDict({'edzed-foo': 'keep'})
    viol = []

    def release(n, persistent_cnt, other=False):
        with Sim(base_unix_us=BASE_US + n * 100_000_000) as sim:
            if cfg['variant'] != 'no-capable-block' or persistent_cnt:
                cnt = edzed.Counter('cnt', persistent=persistent_cnt, initdef=0)
            else:
                cnt = None
                edzed.Not('n').connect(edzed.Const(1))
            if other:
                edzed.Input('other', persistent=True, initdef='o')
            sim.circuit.set_persistent_data(storage)
            res = {}

            async def driver():
                task = asyncio.create_task(sim.circuit.run_forever())
                await sim.circuit.wait_init()
                res['first'] = None if cnt is None else cnt.output
                res['keys'] = sorted(storage)
                if cnt is not None:
                    edzed.ExtEvent(cnt, 'put').send(77)
                await stop(sim.circuit)
                del task
            sim.run(driver())
        acc.execs += 1
        return res
    r1 = release(1, True)
    key = "<Counter 'cnt'>"
    if storage.get(key) != 77:
        viol.append(('storage-differs-from-state', f"release 1: storage {dict(storage)}"))
    r2 = release(2, False, other=cfg['variant'] == 'other-block-only')
    if key in r2['keys']:
        viol.append(('stale-entry-not-removed',
                     f"release 2 ({cfg['variant']}): the entry of the block that is not persistent any "
                     f"more is still in the storage after the start: {r2['keys']}"))
    if storage.get('edzed-foo') != 'keep':
        viol.append(('reserved-entry-removed', f"release 2: storage {dict(storage)}"))
    r3 = release(3, True)
    if r3['first'] != 0:
        viol.append(('stale-state-restored',
                     f"release 3: the counter starts with {r3['first']!r} although release 2 "
                     f"({cfg['variant']}) did not use its entry; expected the initdef 0"))
    acc.outcome(('releases', cfg['variant'], repr(r2['keys']), r3['first']))
    acc.state(('releases', cfg['variant']))
    for sig, msg in viol:
        acc.violation(f"C06:{sig}:releases", msg, cfg=cfg)
    return acc


def run_modulo_changed(cfg, acc):
    storage = SnapshotDict()
    res = {}
    for n, mod in ((1, cfg['m1']), (2, cfg['m2'])):
        with Sim(base_unix_us=BASE_US + n * 100_000_000) as sim:
            cnt = edzed.Counter('cnt', persistent=True, initdef=0, modulo=mod)
            sim.circuit.set_persistent_data(storage)

            async def driver():
                task = asyncio.create_task(sim.circuit.run_forever())
                await sim.circuit.wait_init()
                res[n] = (cnt.output, copy.deepcopy(storage.get(cnt.key, NO_ENTRY)))
                if n == 1:
                    edzed.ExtEvent(cnt, 'put').send(cfg['val'])
                    await stop(sim.circuit)
                else:
                    # crash: no regular stop
                    sim.circuit.abort(RuntimeError('crash'))
                    task.cancel()
                del task
            try:
                sim.run(driver())
            except BaseException:   # pylint: disable=broad-except
                pass
        acc.execs += 1
    acc.outcome(('modulo-changed', cfg['m1'], cfg['m2'], cfg['val'], repr(res)))
    acc.state(('modulo-changed', cfg['m1'], cfg['m2']))
    exp = cfg['val'] % cfg['m2']
    out2, entry2 = res.get(2, (None, None))
    if out2 != exp:
        acc.violation('C06:restored-state-differs:Counter', f"{cfg}: restored output {out2!r}, expected {exp}", cfg=cfg)
    elif entry2 != exp:
        acc.violation('C06:storage-differs-from-state:Counter',
                      f"{cfg}: after the initialisation the Counter holds {out2!r} but the storage entry is "
                      f"{entry2!r}", cfg=cfg)
    return acc


def run_config(cfg):
    acc = Acc()
    if cfg['mode'] == 'modulo-changed':
        return run_modulo_changed(cfg, acc)
    if cfg['mode'] == 'releases':
        return run_releases(cfg, acc)
    if cfg['mode'] == 'failstart':
        return run_failstart(cfg, acc)
    if cfg['mode'] == 'traffic':
        return run_traffic(cfg, acc)
    kind, sync, exp = cfg['kind'], cfg['sync'], cfg['exp']
    snaps, viol, failed = first_run(cfg)
    acc.execs += 1
    ckey = (kind, sync, exp)
    for sig, msg in viol:
        acc.violation(f"C06:{sig}:{kind}", msg, cfg=cfg)
    if viol:
        return acc
    # restart from the snapshots that only this history produces (the last event and the stop)
    todo = snaps[-2:] if len(snaps) > 1 else snaps
    prev = acc.state(('start', ckey))
    for (label, st, truth, wall_us, aux_truth) in todo:
        hs = acc.state((ckey, label[:2], repr(truth)))
        acc.transition(prev, label[:2], hs)
        prev = hs
        if truth is None:
            continue
        key = key_of(kind)
        entry = st.get(key, NO_ENTRY)
        remaining = None
        if isinstance(entry, tuple) and entry[1] is not None:
            remaining = entry[1] - wall_us / 1e6
        downs = [0, 1, 5] if remaining is None else sorted({0, max(0, remaining - 1), remaining + 1})
        if exp not in (None, 0):
            downs = sorted(set(downs) | {exp - 1, exp + 1})
        for down in downs:
            res = restart(cfg, st, wall_us + round(down * 1e6))
            acc.execs += 1
            acc.outcome((ckey, label[:2], repr(entry), down, repr(res.get('state')), repr(res.get('elog'))))
            hr = acc.state((ckey, 'restarted', repr(res.get('state')), repr(res.get('out'))))
            acc.transition(hs, f"restart+{down}", hr)
            if 'err' in res:
                acc.violation(f"C06:restart-failed:{kind}", f"{label}+{down}: {res['err']}", cfg=cfg,
                              detail={'storage': st})
                continue
            # what must happen
            restorable = entry is not NO_ENTRY      # (None is a state like any other)
            if failed and label != 'stop':
                pass
            expect_restore = restorable
            why = ''
            if exp is not None and exp <= 0:
                expect_restore, why = False, 'expiration<=0'
            elif exp is not None and 'edzed-stop-time' in st and label == 'stop' and down > exp:
                expect_restore, why = False, 'expired'
            if remaining is not None and down > remaining:
                expect_restore, why = False, 'timer ran out during the downtime'
            if remaining is not None and down == remaining:
                continue        # boundary: either is fine
            if exp is not None and label == 'stop' and down == exp:
                continue
            if exp is not None and exp > 0 and label != 'stop':
                # crash snapshot: no (fresh) stop timestamp - expiration cannot be judged
                if 'edzed-stop-time' in st:
                    continue
            want = entry if expect_restore else None
            if expect_restore:
                # the entry may be stale w.r.t. truth only when sync_state is off / handler failed
                if not same_state(res['state'], entry):
                    acc.violation(f"C06:restored-state-differs:{kind}",
                                  f"{label}+{down}s: saved {entry!r}, restarted block has {res['state']!r}",
                                  cfg=cfg, detail={'storage': st})
                if kind in ('GenT',) and res['elog']:
                    acc.violation(f"C06:entry-actions-replayed:{kind}",
                                  f"{label}+{down}s: {res['elog']!r} ran while restoring {entry!r}", cfg=cfg)
                if kind in ('TimeDate', 'TimeSpan'):
                    # the output follows the clock: it must be what a fresh block with the saved
                    # configuration outputs at the restart instant
                    if res.get('twin_out') is not res['out']:
                        acc.violation(f"C06:restored-output-differs:{kind}",
                                      f"{label}+{down}s: output {res['out']!r}, a fresh block with the "
                                      f"saved configuration {entry!r} outputs {res.get('twin_out')!r}", cfg=cfg)
                elif sync and not failed and res['out'] != truth[1] and same_state(entry, truth[0]):
                    acc.violation(f"C06:restored-output-differs:{kind}",
                                  f"{label}+{down}s: output {res['out']!r}, before the crash {truth[1]!r}", cfg=cfg)
                if 's0' in res:
                    held = (kind == 'GenT' and isinstance(entry, (tuple, list))
                            and entry[2].get('hold'))     # the timed event will be rejected
                    if res['before_expiry'] != res['s0'] or (
                            (res['after_expiry'] == res['s0']) != bool(held)):
                        acc.violation(f"C06:timer-not-at-same-absolute-time:{kind}",
                                      f"{label}+{down}s: saved {entry!r}; state 1 ms before the saved expiry "
                                      f"{res['before_expiry']!r}, 1 ms after {res['after_expiry']!r}", cfg=cfg)
                elif remaining is not None:
                    acc.violation(f"C06:timer-not-restored:{kind}",
                                  f"{label}+{down}s: saved {entry!r}, restarted block has no timer", cfg=cfg)
            else:
                dflt = default_state(kind)
                got = (res['state'], res['out'])
                if kind == 'InputExp':
                    ok = res['state'][0] == 'valid' and res['out'] == 'iv'
                elif kind in ('TimeDate', 'TimeSpan'):
                    ok = same_state(got[0], dflt[0])
                else:
                    ok = same_state(got[0], dflt[0]) and got[1] == dflt[1]
                if not ok:
                    acc.violation(f"C06:stale-state-not-discarded:{kind}",
                                  f"{label}+{down}s ({why}): saved {entry!r} (exp={exp}), restarted block has {got!r}, "
                                  f"normal initialisation gives {dflt!r}", cfg=cfg, detail={'storage': st})
            if res['aux'] != aux_truth and (exp is None or True):
                if st.get("<Counter 'aux'>") is not None and res['aux'][0] != st["<Counter 'aux'>"]:
                    acc.violation(f"C06:other-block-not-restored:{kind}",
                                  f"{label}+{down}s: aux {res['aux']!r}, storage {st!r}", cfg=cfg)
    acc.sample({'cfg': cfg, 'snapshots': [(l, s) for (l, s, *_r) in snaps][:3]}, limit=2)
    return acc


NO_ENTRY = ('no entry',)
SAVED = {'Input': 2, 'Counter': 11, 'GenT': ('b', None, {'n': 1, 'hold': True}),
         'Timer': ('on', None, {}), 'InputExp': ('valid', None, {'input': 'kept'})}


def run_traffic(cfg, acc):
    """A saved state must survive a restart also when events arrive during the start-up."""
    kind, ev = cfg['kind'], cfg['ev']
    res = {}
    with Sim(base_unix_us=BASE_US) as sim:
        etype_ok = {'Input': 'put', 'Counter': 'put', 'GenT': 'go', 'Timer': 'start', 'InputExp': 'put'}[kind]
        events = {
            'none': None,
            'cond-none': edzed.Event('blk', edzed.EventCond(etype_ok, None)),   # srcval False -> None
            'cond-put': edzed.Event('blk', edzed.EventCond(None, etype_ok)),    # srcval True -> None
            'filtered': edzed.Event('blk', etype_ok, efilter=lambda data: False),
            'plain': edzed.Event('blk', etype_ok, efilter=edzed.DataEdit.add(value=1)),
            # reaches the block (which is initialised early because of it) and is refused by
            # its validator: the restored state stays
            'rejected': edzed.Event('blk', etype_ok, efilter=edzed.DataEdit.add(value=99)),
        }[ev]

        def mk_src():
            return edzed.Input('src', persistent=True, initdef=not cfg['srcval'], on_output=events)
        if cfg['order'] == 0:
            src = mk_src()
        blk, aux = make_blocks(kind, 1, None)
        if cfg['order'] == 1:
            src = mk_src()
        storage = {blk.key: copy.deepcopy(SAVED[kind]), src.key: cfg['srcval'], aux.key: 7,
                   'edzed-stop-time': BASE_US / 1e6 - 100.0}
        initial = copy.deepcopy(storage)
        sim.circuit.set_persistent_data(storage)

        async def driver():
            task = asyncio.create_task(sim.circuit.run_forever())
            try:
                await sim.circuit.wait_init()
                res['started'] = True
            except Exception as err:    # pylint: disable=broad-except
                res['err'] = repr(err)
                await stop(sim.circuit)
                return
            res['state'] = live_state(blk)
            res['entry'] = copy.deepcopy(storage.get(blk.key))
            await stop(sim.circuit)
            del task
        sim.run(driver())
    acc.execs += 1
    acc.outcome(('traffic', kind, ev, cfg['order'], cfg['srcval'], repr(res.get('state'))))
    acc.state(('traffic', kind, ev, cfg['order'], cfg['srcval']))
    if not res.get('started'):
        acc.violation(f'C06:restart-failed:{kind}', f"{cfg}: {res.get('err')}", cfg=cfg)
        return acc
    delivered = ev == 'plain' or (ev == 'cond-none' and cfg['srcval']) or (
        ev == 'cond-put' and not cfg['srcval'])
    if not delivered:
        # nothing reached the block: it must come up exactly as saved
        if not same_state(res['state'][0], initial[blk.key] if kind in ('Input', 'Counter')
                          else tuple(initial[blk.key])):
            acc.violation(f'C06:saved-state-lost-at-restart:{kind}',
                          f"start-up event '{ev}' (source restored to {cfg['srcval']}, creation order "
                          f"{cfg['order']}): saved {initial[blk.key]!r}, block came up with "
                          f"{res['state'][0]!r}; entry after init {res['entry']!r}", cfg=cfg)
    return acc


def run_failstart(cfg, acc):
    """A start-up that fails before block initialisation begins writes nothing."""
    initial = {"<Counter 'cnt'>": 11, "<Input 'inp'>": 2, 'edzed-stop-time': 5.0, 'edzed-x': 1}
    storage = copy.deepcopy(initial)
    res = {}
    with Sim(base_unix_us=BASE_US) as sim:
        def mk():
            if cfg['fail'] == 'start':
                FailStart('bad')
            elif cfg['fail'] == 'task':
                FailTask('bad')
            else:
                NeverInit('bad')
        if cfg['pos'] == 0:
            mk()
        cnt = edzed.Counter('cnt', persistent=True, initdef=1)
        inp = edzed.Input('inp', persistent=True, initdef=0)
        if cfg['pos'] == 1:
            mk()
        sim.circuit.set_persistent_data(storage)

        async def driver():
            task = asyncio.create_task(sim.circuit.run_forever())
            try:
                await sim.circuit.wait_init()
                res['started'] = True
            except Exception as err:    # pylint: disable=broad-except
                res['err'] = repr(err)
            await asyncio.sleep(1)
            await stop(sim.circuit)
            res['cnt'] = cnt.output
            res['inp'] = inp.output
            del task
        sim.run(driver())
    acc.execs += 1
    acc.outcome((cfg['fail'], cfg['pos'], repr(sorted(storage.items()))))
    acc.state(('failstart', cfg['fail'], cfg['pos'], repr(sorted(storage.items()))))
    if res.get('started'):
        acc.violation(f"C06:failstart-did-not-fail:{cfg['fail']}", repr(res), cfg=cfg)
    if cfg['fail'] in ('start', 'task'):
        if storage != initial:
            acc.violation(f"C06:written-after-failed-start:{cfg['fail']}",
                          f"storage {storage!r}, before the failed start {initial!r}", cfg=cfg)
    else:
        # failure after all start() calls: whatever is written must be the true state
        for key, val in (("<Counter 'cnt'>", res.get('cnt')), ("<Input 'inp'>", res.get('inp'))):
            if key in storage and storage[key] not in (initial[key], val):
                acc.violation('C06:false-state-written-after-init-failure',
                              f"{key}: stored {storage[key]!r}, block output {val!r}", cfg=cfg)
    return acc

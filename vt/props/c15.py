"""
C15 - the finalized circuit's connection data is complete, consistent and frozen.

Connection programs over 2 sequential + 3 combinational blocks: every input shape (positional
single / pair, named single, named group of size 0..3, mixed with a repeated reference) with
every reference style in every position (block object, block name, '_not_NAME' of an S- or
C-block, Const, plain constant), crossed with a catalogue for the second block (shared
inverters, mutual references by name), events / filters referring to blocks by name, object
and shortcut; BOTH finalisation paths (explicit Circuit.finalize() before the start, implicit
in run_forever()).  A reference resolution of the specification is compared with inputs,
iconnections, oconnections, get_conf(), input_signature(), Event.dest and the behaviour of
the filters.  One program per class of invalid reference must fail at construction or start;
after finalisation the circuit must be frozen.
"""
from __future__ import annotations

import asyncio
import itertools

import edzed

from ..explore import Acc
from ..harness import Sim, stop

PROPERTY = 'C15'
LEVEL = 'model_checking'
LEVEL_TEXT = ("Bounded exhaustive exploration of connection programs on the real circuit code: "
              "every input shape x every reference style in every position for one block, "
              "crossed with a catalogue for a second block (shared inverters, mutual and forward "
              "references by name), events and filters by name / object / shortcut, both "
              "finalisation paths; a reference resolution of the specification decides inputs, "
              "the inputs/iconnections/oconnections biconditional, get_conf, input_signature, "
              "Event.dest and filter control blocks; every class of invalid program must fail; "
              "the finalized circuit must refuse new blocks, connect() and a new storage.")
LEVEL_NOTE = ("5 blocks (2 Inputs, 3 FuncBlocks accepting any input shape); slots of the first "
              "CBlock take every reference from a 14-element list (pairs: all ordered pairs); "
              "filter control blocks are observed through the filters' behaviour after the start "
              "(they have no public attribute).")
TECHNIQUE = ("bounded exhaustive exploration of the implementation (all small connection programs x "
             "finalisation paths) vs. reference resolution")
RULE = ("a case = (connection program, finalisation path); program = input shapes and reference "
        "styles of the combinational blocks + event/filter references; distinct = distinct "
        "(program, path) pairs, counted; outcome = resolved structure")
ASSUMPTIONS = [
    "reference resolution written from docs (CBlock.connect, Circuit.finalize, inverted output "
    "shortcut, Event, filters)",
]

# reference tokens: ('s', i, style) / ('c', j, style) style in obj|name|not ; ('k', value, wrapped)
REFS_C0 = ([('s', i, st) for i in (0, 1) for st in ('obj', 'name', 'not')]
           + [('c', j, st) for j in (1, 2) for st in ('name', 'not')]
           + [('k', 7, True), ('k', 7, False), ('k', None, False), ('k', True, True)])
DEFAULT = ('s', 0, 'obj')

SHAPES = ('pos1', 'pos2', 'named1', 'group0', 'group1', 'group2', 'group3', 'mixed')


def shape_specs(shape, refs):
    """-> list of (args, kwargs) specs in terms of reference tokens"""
    out = []
    if shape == 'pos1':
        out = [((r,), {}) for r in refs]
    elif shape == 'pos2':
        out = [((r1, r2), {}) for r1 in refs for r2 in refs]
    elif shape == 'named1':
        out = [((), {'a': r}) for r in refs]
    elif shape == 'group0':
        out = [((), {'g': ()}), ((DEFAULT,), {'g': ()})]
    elif shape == 'group1':
        out = [((), {'g': (r,)}) for r in refs]
    elif shape == 'group2':
        out = [((), {'g': (r1, r2)}) for r1 in refs for r2 in refs]
    elif shape == 'group3':
        out = [((), {'g': (r, DEFAULT, r)}) for r in refs] + \
              [((), {'g': (DEFAULT, r, ('s', 1, 'name'))}) for r in refs]
    elif shape == 'mixed':
        out = [((r, DEFAULT), {'a': r, 'g': (DEFAULT, r), 'h': ()}) for r in refs] + \
              [((DEFAULT,), {'b': r2, 'a': r1}) for r1 in refs[::3] for r2 in refs]
    return out


C1_SPECS = [
    ((('s', 0, 'obj'),), {}),
    ((('s', 0, 'not'), ('c', 0, 'obj')), {}),
    ((), {'a': ('c', 0, 'name'), 'g': (('c', 0, 'not'), ('s', 0, 'not'))}),
    ((('c', 2, 'name'),), {'g': (('s', 1, 'not'), ('s', 1, 'not'), ('k', 0, False))}),
    ((('c', 0, 'not'),), {'x': ('c', 2, 'not')}),
]
C2_SPECS = [
    ((('s', 1, 'obj'),), {}),
    ((('c', 0, 'not'), ('s', 0, 'name')), {'z': ('c', 1, 'obj')}),
    # constants that compare equal but are different values: 1, True, 1.0 / 0, False
    ((('k', 1, True), ('k', 1.0, True)), {'g': (('k', 0, False), ('k', False, True), ('k', 7.0, False))}),
    # ... also inside containers and in the sign of a zero
    ((('k', (1,), True), ('k', (True,), True)), {'g': (('k', 0.0, True), ('k', -0.0, False), ('k', (1.0,), False)),
                                                  'z': ('k', 0.0, False)}),
]
EV_SPECS = ['none', 'byname', 'byobj', 'ctrl', 'filters-name', 'filters-obj', 'filters-not']


def configs(tier):
    out = []
    for shape in SHAPES:
        specs = shape_specs(shape, REFS_C0)
        if tier == 'quick' and len(specs) > 60:
            # all pairs are kept for the first catalogue entry only
            pass
        for si, spec in enumerate(specs):
            for c1i in range(len(C1_SPECS)):
                if tier == 'quick' and len(specs) > 60 and c1i and (si + c1i) % 5:
                    continue
                if tier == 'quick':
                    out.append(dict(kind='prog', c0=spec, c1=c1i, c2=(si + c1i) % len(C2_SPECS),
                                    ev=EV_SPECS[(si + c1i) % len(EV_SPECS)]))
                else:
                    for c2i in range(len(C2_SPECS)):
                        for ev in EV_SPECS:
                            out.append(dict(kind='prog', c0=spec, c1=c1i, c2=c2i, ev=ev))
    for ev in EV_SPECS:
        for c1i in range(len(C1_SPECS)):
            for c2i in range(len(C2_SPECS)):
                out.append(dict(kind='prog', c0=((DEFAULT,), {}), c1=c1i, c2=c2i, ev=ev))
    # input groups given as one-shot iterators (generator, iter(), map()): deprecated, accepted
    for shape in ('group0', 'group1', 'group2', 'group3', 'mixed'):
        for si, spec in enumerate(shape_specs(shape, REFS_C0)):
            if tier == 'quick' and shape in ('group2', 'mixed') and si % 4:
                continue
            for gstyle in ('gen', 'iter'):
                for c1i in ((2, 3) if tier == 'quick' else range(len(C1_SPECS))):
                    out.append(dict(kind='prog', c0=spec, c1=c1i, c2=(si + c1i) % len(C2_SPECS),
                                    ev='none', gstyle=gstyle))
    # shortcuts referenced by particular kinds of consumers only (explicit Not blocks, filters,
    # other shortcuts' targets ...): generic structure check over all blocks of the circuit
    for users in SHORTCUT_USERS:
        for order in ('users-first', 'target-first'):
            out.append(dict(kind='shortcut', users=users, order=order))
    out += [dict(kind='invalid', cls=c) for c in INVALID]
    out += [dict(kind='frozen', path=p) for p in ('explicit', 'implicit', 'explicit+run', 'after-stop')]
    # '_not_NAME' for names that begin with characters of the prefix itself (n, o, t, 'not_')
    for name in ('toggle', 'not_a', 'n', 'o', 't', 'not', 'on', 'ton', 'tnot_x', 'no_t', 'x_not_', 'otto', 'a'):
        for decoys in (False, True):
            out.append(dict(kind='shortcut-name', name=name, decoys=decoys))
    # references by name created between an explicit finalize() and the start (events and filters
    # are no blocks and no connections; they are resolved when the simulation starts)
    for ref in LATE_REFS:
        for target in ('s1', '_not_s0', 'nosuch', 'c0'):
            for finalizes in (1, 2):
                out.append(dict(kind='late-ref', ref=ref, target=target, finalizes=finalizes))
    return out


# ------------------------------------------------------------------ building

def anyfunc(*args, **kwargs):
    return 0


class Built:
    pass


def build(cfg):
    b = Built()
    b.s = [edzed.Input('s0', initdef=1), edzed.Input('s1', initdef=0)]
    b.c = [None, None, None]
    specs = [cfg['c0'], C1_SPECS[cfg['c1']], C2_SPECS[cfg['c2']]]
    b.specs = specs
    b.events = []      # (Event, expected destination name)
    b.filters = []     # (kind, filter, control block name)
    for j in range(3):
        b.c[j] = edzed.FuncBlock(f'c{j}', func=anyfunc)
    b.idle = edzed.And('idle')      # legal: a block without inputs, never connected

    def mk(tok):
        if tok[0] == 's':
            return b.s[tok[1]] if tok[2] == 'obj' else f's{tok[1]}' if tok[2] == 'name' else f'_not_s{tok[1]}'
        if tok[0] == 'c':
            return b.c[tok[1]] if tok[2] == 'obj' else f'c{tok[1]}' if tok[2] == 'name' else f'_not_c{tok[1]}'
        return edzed.Const(tok[1]) if tok[2] else tok[1]
    for j, (args, kwargs) in enumerate(specs):
        kw = {}
        for name, val in kwargs.items():
            if name in ('g', 'h'):
                # groups as a list or a tuple
                seq = [mk(t) for t in val]
                gstyle = cfg.get('gstyle', 'seq')
                if gstyle == 'gen':
                    # iterators are deprecated as groups, but still accepted: one-shot objects
                    kw[name] = (x for x in seq)
                elif gstyle == 'iter':
                    kw[name] = iter(tuple(seq)) if j % 2 == 0 else map(lambda x: x, seq)
                else:
                    kw[name] = seq if j % 2 == 0 else tuple(seq)
            else:
                kw[name] = mk(val)
        ret = b.c[j].connect(*[mk(t) for t in args], **kw)
        assert ret is b.c[j]
    ev = cfg['ev']
    never = lambda data: False      # noqa: E731
    sink = edzed.Input('sink', initdef=0)
    if ev == 'byname':
        evs = [(edzed.Event('sink', 'put', efilter=never), 'sink'),
               (edzed.Event('s1', 'put', efilter=never), 's1')]
    elif ev == 'byobj':
        evs = [(edzed.Event(sink, 'put', efilter=never), 'sink'),
               (edzed.Event(b.s[1], 'put', efilter=never), 's1')]
    elif ev == 'ctrl':
        evs = [(edzed.Event.abort(), '_ctrl'), (edzed.Event('_ctrl', 'shutdown'), '_ctrl')]
        evs = [(e, n) for e, n in evs]
        for e, _n in evs:
            e._filters = (never,)       # never fired (harness-side gate, the Event API has no setter)
    elif ev.startswith('filters'):
        style = ev.split('-')[1]
        ref = {'name': 'c0', 'obj': b.c[0], 'not': '_not_c0'}[style]
        sref = {'name': 's1', 'obj': b.s[1], 'not': 's1'}[style]
        ctl_name = '_not_c0' if style == 'not' else 'c0'
        f1 = edzed.IfOutput(ref)
        f2 = edzed.DataEdit.add_output('k', ref).add_output('k2', sref)
        f3 = edzed.NotIfInitialized(sref)
        # the same data key used twice in one chain, with the first value moved away in between
        s0ref = {'name': 's0', 'obj': b.s[0], 'not': 's0'}[style]
        f4 = edzed.DataEdit.add_output('tmp', s0ref).rename('tmp', 'first').add_output('tmp', sref)
        b.filters = [('ifoutput', f1, ctl_name), ('add_output', f2, ctl_name), ('notifinit', f3, 's1'),
                     ('add_output2', f4, 's1')]
        evs = [(edzed.Event('sink', 'put', efilter=[never, f1, f2, f3]), 'sink')]
    else:
        evs = []
    b.events = evs
    if evs:
        b.src = edzed.Input('evsrc', initdef=0, on_output=[e for e, _n in evs])
    return b


# ------------------------------------------------------------------ reference + checks

def check_structure(b, circuit, viol, label):
    blocks = {blk.name: blk for blk in circuit.getblocks()}

    def resolve(tok):
        """-> expected object predicate: ('blk', name) or ('const', value)"""
        if tok[0] in 'sc':
            base = f"{tok[0]}{tok[1]}"
            return ('blk', base if tok[2] != 'not' else '_not_' + base)
        return ('const', tok[1])

    def matches(obj, exp):
        if exp[0] == 'blk':
            return obj is blocks.get(exp[1])
        # the same value: equal, of the same type and with the same representation
        # ((1,) is not (True,), 0.0 is not -0.0)
        return isinstance(obj, edzed.Const) and obj.output == exp[1] and \
            type(obj.output) is type(exp[1]) and repr(obj.output) == repr(exp[1])
    used_not = set()
    exp_feed = {}       # consumer name -> set of feeder names
    for j, (args, kwargs) in enumerate(b.specs):
        cblk = b.c[j]
        exp_inputs = {}
        if args:
            exp_inputs['_'] = tuple(resolve(t) for t in args)
        for name, val in kwargs.items():
            exp_inputs[name] = tuple(resolve(t) for t in val) if name in ('g', 'h') else resolve(val)
        feeders = set()
        for v in exp_inputs.values():
            for e in (v if isinstance(v, tuple) and (not v or isinstance(v[0], tuple)) else (v,)):
                if e and e[0] == 'blk':
                    feeders.add(e[1])
                    if e[1].startswith('_not_'):
                        used_not.add(e[1])
        exp_feed[cblk.name] = feeders
        got = cblk.inputs
        if set(got) != set(exp_inputs):
            viol.append(('inputs-keys', f"{label}: {cblk.name}.inputs keys {sorted(got)}, expected "
                         f"{sorted(exp_inputs)}"))
            continue
        for name, exp in exp_inputs.items():
            g = got[name]
            if isinstance(exp, tuple) and (not exp or isinstance(exp[0], tuple)):
                ok = isinstance(g, tuple) and len(g) == len(exp) and all(
                    matches(o, e) for o, e in zip(g, exp))
            else:
                ok = not isinstance(g, tuple) and matches(g, exp)
            if not ok:
                viol.append(('input-resolution',
                             f"{label}: {cblk.name}.inputs[{name!r}] = {g!r} "
                             f"({[getattr(x, 'name', x) for x in (g if isinstance(g, tuple) else (g,))]}), "
                             f"expected {exp}"))
        # input_signature / get_conf
        exp_sig = {n: (len(v) if isinstance(v, tuple) and (not v or isinstance(v[0], tuple)) else None)
                   for n, v in exp_inputs.items()}
        try:
            sig = cblk.input_signature()
        except Exception as err:    # pylint: disable=broad-except
            sig = repr(err)
        if sig != exp_sig:
            viol.append(('input-signature', f"{label}: {cblk.name}.input_signature() = {sig}, "
                         f"expected {exp_sig}"))

        def cname(e):
            return e[1] if e[0] == 'blk' else str(edzed.Const(e[1]))
        exp_conf = {n: (tuple(cname(e) for e in v)
                        if isinstance(v, tuple) and (not v or isinstance(v[0], tuple)) else cname(v))
                    for n, v in exp_inputs.items()}
        conf = cblk.get_conf().get('inputs')
        if conf != exp_conf:
            viol.append(('get_conf', f"{label}: {cblk.name}.get_conf()['inputs'] = {conf}, expected {exp_conf}"))
    for kind, _f, ctl in b.filters:
        if ctl.startswith('_not_'):
            used_not.add(ctl)
    # inverters: exactly one per used shortcut, a Not fed by its target; none unused
    nots = [n for n in blocks if n.startswith('_not_')]
    if sorted(nots) != sorted(used_not):
        viol.append(('inverter-set', f"{label}: inverter blocks {sorted(nots)}, expected {sorted(used_not)}"))
    for n in nots:
        inv = blocks[n]
        tgt = blocks.get(n[5:])
        if not isinstance(inv, edzed.Not) or inv.inputs.get('_') != (tgt,):
            viol.append(('inverter-wiring', f"{label}: {n} is {inv!r} with inputs {inv.inputs}"))
        exp_feed[n] = {n[5:]}
    # the biconditional over all pairs of blocks
    cblocks = [blk for blk in blocks.values() if isinstance(blk, edzed.CBlock)]
    for a in blocks.values():
        for bb in cblocks:
            in_o = bb in a.oconnections
            in_i = a in bb.iconnections
            flat = []
            for v in bb.inputs.values():
                flat.extend(v if isinstance(v, tuple) else (v,))
            feeds = any(x is a for x in flat)
            exp = a.name in exp_feed.get(bb.name, set())
            if not (in_o == in_i == feeds == exp):
                viol.append(('connection-biconditional',
                             f"{label}: A={a.name} B={bb.name}: B in A.oconnections={in_o}, "
                             f"A in B.iconnections={in_i}, A feeds B.inputs={feeds}, specified={exp}"))
    for a in blocks.values():
        if not isinstance(a, edzed.CBlock) and getattr(a, 'iconnections', None):
            viol.append(('connection-biconditional', f"{label}: S-block {a.name} has iconnections"))
        if any(not isinstance(x, edzed.CBlock) for x in a.oconnections):
            viol.append(('connection-biconditional', f"{label}: {a.name}.oconnections has a non-CBlock"))
    # events
    for ev, dname in b.events:
        try:
            dest = ev.dest
        except Exception as err:    # pylint: disable=broad-except
            viol.append(('event-dest', f"{label}: Event.dest of an event to {dname!r} raised {err!r}"))
            continue
        if dest is not blocks.get(dname):
            viol.append(('event-dest', f"{label}: Event.dest is {dest!r}, expected block {dname!r}"))
    if not circuit.is_finalized():
        viol.append(('not-finalized', f"{label}: is_finalized() is False"))


def check_filters(b, circuit, viol, label):
    for kind, flt, ctl in b.filters:
        blk = circuit.findblock(ctl)
        data = {'value': 1, 'source': 'x'}
        try:
            res = flt(dict(data))
        except Exception as err:    # pylint: disable=broad-except
            viol.append(('filter-control-block', f"{label}: {kind} filter on {ctl!r} raised {err!r}"))
            continue
        if kind == 'ifoutput':
            ok = bool(res) == bool(blk.output)
        elif kind == 'add_output':
            ok = isinstance(res, dict) and res.get('k') == blk.output and \
                res.get('k2') == circuit.findblock('s1').output
        elif kind == 'add_output2':
            ok = isinstance(res, dict) and res.get('first') == circuit.findblock('s0').output and \
                res.get('tmp') == blk.output and res.get('first') != res.get('tmp')
        else:
            ok = bool(res) == (not blk.is_initialized())
        if not ok:
            viol.append(('filter-control-block',
                         f"{label}: {kind} filter on {ctl!r} (output {blk.output!r}) returned {res!r}"))


def check_frozen(circuit, b, viol, label):
    for what, fn in (('new block', lambda: edzed.Input('late', initdef=0)),
                     ('new cblock', lambda: edzed.Not('late2')),
                     ('connect', lambda: b.c[0].connect(b.s[0])),
                     ('connect of a never connected block', lambda: b.idle.connect(b.s[0])),
                     ('connect by name of a never connected block', lambda: b.idle.connect('s1', x='_not_s0')),
                     ('set_persistent_data', lambda: circuit.set_persistent_data({}))):
        try:
            fn()
        except edzed.EdzedInvalidState:
            continue
        except Exception as err:    # pylint: disable=broad-except
            viol.append(('not-frozen', f"{label}: {what} raised {err!r} instead of EdzedInvalidState"))
        else:
            viol.append(('not-frozen', f"{label}: {what} was accepted"))
    if 'late' in circuit._blocks or 'late2' in circuit._blocks:
        viol.append(('not-frozen', f"{label}: a block was added"))
    if b.idle.inputs or b.idle.iconnections or any(b.idle in x.oconnections for x in circuit.getblocks()):
        viol.append(('not-frozen', f"{label}: a never connected block got inputs {b.idle.inputs}"))


def run_prog(cfg, path, acc):
    viol = []
    with Sim() as sim:
        try:
            b = build(cfg)
        except Exception as err:    # pylint: disable=broad-except
            viol.append(('valid-program-rejected', f"construction raised {err!r}"))
            return viol
        circuit = sim.circuit
        if path == 'explicit':
            try:
                circuit.finalize()
            except Exception as err:    # pylint: disable=broad-except
                viol.append(('valid-program-rejected', f"Circuit.finalize() raised {err!r}"))
                return viol
            check_structure(b, circuit, viol, 'after Circuit.finalize()')
            check_frozen(circuit, b, viol, 'after Circuit.finalize()')
            if viol:
                return viol

        async def driver():
            task = asyncio.create_task(circuit.run_forever())
            try:
                await circuit.wait_init()
            except Exception as err:    # pylint: disable=broad-except
                viol.append(('valid-program-rejected',
                             f"path {path}: start failed: {err!r} / {circuit.error!r}"))
                await stop(circuit)
                return
            check_structure(b, circuit, viol, f'running ({path} finalisation)')
            check_filters(b, circuit, viol, f'running ({path} finalisation)')
            check_frozen(circuit, b, viol, f'running ({path} finalisation)')
            edzed.ExtEvent(b.s[1]).send(5)
            await sim.loop.idle()
            check_filters(b, circuit, viol, f'running, s1=5 ({path} finalisation)')
            if circuit.error is not None:
                viol.append(('simulation-died', repr(circuit.error)))
            await stop(circuit)
            del task
        sim.run(driver())
        s0 = acc.state(('program', repr(cfg['c0']), cfg['c1'], cfg['c2'], cfg['ev']))
        s1 = acc.state(('finalized', repr(cfg['c0']), cfg['c1'], cfg['c2'], cfg['ev'],
                        tuple(sorted(n for n in circuit._blocks if n.startswith('_'))),
                        tuple(sorted((a.name, tuple(sorted(x.name for x in a.oconnections)))
                                     for a in circuit.getblocks()))))
        acc.transition(s0, path, s1)
    return viol


# ------------------------------------------------------------------ shortcut users

SHORTCUT_USERS = [('not',), ('not', 'not'), ('and',), ('not', 'and'), ('func-group',), ('filter',),
                  ('not', 'filter'), ('not-of-not',), ('not', 'not-of-not'), ('and', 'not-of-not')]


def run_shortcut(cfg, path, acc):
    """
    The shortcut '_not_x' is referenced only by the given kinds of users.  Checked generically:
    the inverter exists exactly once and is wired x -> _not_x -> users; for ALL blocks A, B:
    B in A.oconnections <=> A in B.iconnections <=> A feeds an input of B; get_conf() of every
    block works and names the same inputs; outputs after the start are what the functions say.
    """
    viol = []
    with Sim() as sim:
        circuit = sim.circuit
        users = {}

        def mk_target():
            return edzed.Input('x', initdef=True)

        def mk_users():
            for i, u in enumerate(cfg['users']):
                name = f'u{i}'
                if u == 'not':
                    users[name] = (edzed.Not(name).connect('_not_x'), lambda x: x)
                elif u == 'and':
                    users[name] = (edzed.And(name).connect('_not_x', True), lambda x: not x)
                elif u == 'func-group':
                    users[name] = (edzed.FuncBlock(name, func=lambda g: list(g)).connect(g=['_not_x', 'x']),
                                   lambda x: [not x, x])
                elif u == 'filter':
                    flt = edzed.IfOutput('_not_x')
                    users[name] = (edzed.Input(name, initdef=0, on_output=edzed.Event('sink', efilter=flt)), None)
                    users[name][0].vt_filter = flt
                elif u == 'not-of-not':
                    # a shortcut to the inverse of an explicit Not block which itself uses the shortcut
                    inner = edzed.Not(name + 'i').connect('_not_x')
                    users[name + 'i'] = (inner, lambda x: x)
                    users[name] = (edzed.Or(name).connect(f'_not_{name}i'), lambda x: not x)
        try:
            edzed.Input('sink', initdef=0)
            if cfg['order'] == 'target-first':
                x = mk_target()
                mk_users()
            else:
                mk_users()
                x = mk_target()
            if path == 'explicit':
                circuit.finalize()
        except Exception as err:    # pylint: disable=broad-except
            return [('valid-program-rejected', f"{cfg['users']}: {err!r}")]

        def structure(label):
            blocks = list(circuit.getblocks())
            names = [b.name for b in blocks]
            if names.count('_not_x') != 1:
                viol.append(('inverter-count', f"{label}: blocks {sorted(names)}"))
                return
            inv = circuit.findblock('_not_x')
            for a in blocks:
                for b in blocks:
                    feeds = isinstance(b, edzed.CBlock) and any(
                        a is i for v in b.inputs.values() for i in (v if isinstance(v, tuple) else (v,)))
                    in_o = b in getattr(a, 'oconnections', ())
                    in_i = a in getattr(b, 'iconnections', ())
                    if not feeds == in_o == in_i:
                        viol.append(('biconditional', f"{label}: {a.name} -> {b.name}: feeds an input "
                                     f"{feeds}, in oconnections {in_o}, in iconnections {in_i}"))
            if not (x in inv.iconnections and inv in x.oconnections):
                viol.append(('inverter-wiring', f"{label}: _not_x inputs {inv.inputs}"))
            for b in blocks:
                try:
                    conf = b.get_conf()
                except Exception as err:    # pylint: disable=broad-except
                    viol.append(('get_conf', f"{label}: {b.name}.get_conf() raised {err!r}"))
                    continue
                if isinstance(b, edzed.CBlock):
                    exp = {k: (tuple(i.name for i in v) if isinstance(v, tuple) else v.name)
                           for k, v in b.inputs.items()}
                    if conf.get('inputs') != exp:
                        viol.append(('get_conf', f"{label}: {b.name}: get_conf inputs {conf.get('inputs')}, "
                                     f"inputs {exp}"))
            for name, (blk, _f) in users.items():
                if isinstance(blk, edzed.CBlock) and not any(
                        isinstance(i, edzed.Block) for v in blk.inputs.values()
                        for i in (v if isinstance(v, tuple) else (v,))):
                    viol.append(('input-resolution', f"{label}: {name} inputs {blk.inputs}"))
        if path == 'explicit':
            structure('after Circuit.finalize()')
            if viol:
                return viol

        async def driver():
            task = asyncio.create_task(circuit.run_forever())
            try:
                await circuit.wait_init()
            except Exception as err:    # pylint: disable=broad-except
                viol.append(('valid-program-rejected', f"path {path}: start failed: {err!r} / {circuit.error!r}"))
                await stop(circuit)
                return
            structure(f'running ({path} finalisation)')
            for xv in (True, False, True):
                edzed.ExtEvent(x).send(xv)
                await sim.loop.idle()
                if circuit.error is not None:
                    viol.append(('simulation-died', repr(circuit.error)))
                    break
                inv = circuit.findblock('_not_x')
                if inv.output != (not xv):
                    viol.append(('inverter-output', f"x={xv}: _not_x outputs {inv.output!r}"))
                for name, (blk, f) in users.items():
                    if f is not None and blk.output != f(xv):
                        viol.append(('user-output', f"x={xv}: {name} outputs {blk.output!r}, expected {f(xv)!r}"))
                    if f is None and bool(blk.vt_filter({'value': 1})) != (not xv):
                        viol.append(('filter-control-block', f"x={xv}: IfOutput('_not_x') -> {blk.vt_filter({'value': 1})!r}"))
            await stop(circuit)
            del task
        sim.run(driver())
        s0 = acc.state(('shortcut', cfg['users'], cfg['order']))
        acc.transition(s0, path, acc.state(('shortcut-finalized', cfg['users'], cfg['order'],
                                            tuple(sorted(n for n in circuit._blocks if n.startswith('_'))))))
    return viol


# ------------------------------------------------------------------ invalid programs

def _inv_unknown_name():
    edzed.Input('s0', initdef=0)
    edzed.FuncBlock('c0', func=anyfunc).connect('nosuch')


def _inv_unknown_not():
    edzed.Input('s0', initdef=0)
    edzed.FuncBlock('c0', func=anyfunc).connect('_not_nosuch')


def _inv_not_underscore():
    edzed.Input('s0', initdef=0)
    edzed.FuncBlock('c0', func=anyfunc).connect('_not__x')


def _inv_foreign_block():
    old = edzed.Input('old', initdef=0)
    edzed.reset_circuit()
    edzed.Input('s0', initdef=0)
    edzed.FuncBlock('c0', func=anyfunc).connect(old)


def _inv_foreign_event_dest():
    old = edzed.Input('old', initdef=0)
    edzed.reset_circuit()
    edzed.Input('s0', initdef=0, on_output=edzed.Event(old))
    return 'send'


def _inv_event_to_cblock_name():
    edzed.Input('s0', initdef=0, on_output=edzed.Event('c0'))
    edzed.FuncBlock('c0', func=anyfunc).connect('s0')


def _inv_event_to_cblock_obj():
    c0 = edzed.FuncBlock('c0', func=anyfunc)
    edzed.Input('s0', initdef=0, on_output=edzed.Event(c0))
    c0.connect('s0')


def _inv_extevent_to_cblock():
    s = edzed.Input('s0', initdef=0)
    edzed.FuncBlock('c0', func=anyfunc).connect(s)
    edzed.ExtEvent('c0')


def _inv_event_unknown_dest():
    edzed.Input('s0', initdef=0, on_output=edzed.Event('nosuch'))


def _inv_notifinit_cblock():
    s = edzed.Input('s0', initdef=0)
    edzed.FuncBlock('c0', func=anyfunc).connect(s)
    edzed.Input('s1', initdef=0, on_output=edzed.Event(s, efilter=edzed.NotIfInitialized('c0')))


def _inv_ifoutput_unknown():
    s = edzed.Input('s0', initdef=0)
    edzed.Input('s1', initdef=0, on_output=edzed.Event(s, efilter=edzed.IfOutput('nosuch')))


def _inv_addoutput_unknown():
    s = edzed.Input('s0', initdef=0)
    edzed.Input('s1', initdef=0, on_output=edzed.Event(
        s, efilter=edzed.DataEdit.add_output('k', 'nosuch')))


def _inv_missing_inputs_not():
    edzed.Input('s0', initdef=0)
    edzed.Not('n0')


def _inv_extra_inputs_not():
    s = edzed.Input('s0', initdef=0)
    edzed.Not('n0').connect(s, s)


def _inv_named_input_not():
    s = edzed.Input('s0', initdef=0)
    edzed.Not('n0').connect(x=s)


def _inv_override_group():
    s = edzed.Input('s0', initdef=0)
    edzed.Override('o0').connect(input=[s], override=s)


def _inv_override_missing():
    s = edzed.Input('s0', initdef=0)
    edzed.Override('o0').connect(input=s)


def _inv_override_extra():
    s = edzed.Input('s0', initdef=0)
    edzed.Override('o0').connect(s, input=s, override=s)


def _inv_override_empty_group():
    s = edzed.Input('s0', initdef=0)
    edzed.Override('o0').connect(input=(), override=s)


def _inv_override_empty_group2():
    s = edzed.Input('s0', initdef=0)
    edzed.Override('o0').connect(input=s, override=[])


def _inv_not_named_empty_group():
    edzed.Input('s0', initdef=0)
    edzed.Not('n0').connect(x=())


class _OneInput(edzed.CBlock):
    def calc_output(self):
        return self._in['x']

    def start(self):
        super().start()
        self.check_signature({'x': None})


class _GroupOf2(edzed.CBlock):
    def calc_output(self):
        return self._in['g']

    def start(self):
        super().start()
        self.check_signature({'g': 2})


class _GroupRange(edzed.CBlock):
    def calc_output(self):
        return self._in['g']

    def start(self):
        super().start()
        self.check_signature({'g': (1, 2)})


def _inv_custom_single_got_empty_group():
    edzed.Input('s0', initdef=0)
    _OneInput('c0').connect(x=[])


def _inv_custom_single_got_group1():
    s = edzed.Input('s0', initdef=0)
    _OneInput('c0').connect(x=[s])


def _inv_custom_group2_got_single():
    s = edzed.Input('s0', initdef=0)
    _GroupOf2('c0').connect(g=s)


def _inv_custom_group2_got_0():
    edzed.Input('s0', initdef=0)
    _GroupOf2('c0').connect(g=[])


def _inv_custom_group2_got_3():
    s = edzed.Input('s0', initdef=0)
    _GroupOf2('c0').connect(g=[s, s, s])


def _inv_custom_range_got_0():
    edzed.Input('s0', initdef=0)
    _GroupRange('c0').connect(g=())


def _inv_custom_range_got_3():
    s = edzed.Input('s0', initdef=0)
    _GroupRange('c0').connect(g=(s, s, s))


def _inv_custom_range_got_single():
    s = edzed.Input('s0', initdef=0)
    _GroupRange('c0').connect(g=s)


def _inv_compare_two():
    s = edzed.Input('s0', initdef=0)
    edzed.Compare('k0', low=1, high=2).connect(s, s)


def _inv_func_mismatch():
    s = edzed.Input('s0', initdef=0)
    edzed.FuncBlock('f0', func=lambda a, b: 0).connect(s)


def _inv_func_unknown_kw():
    s = edzed.Input('s0', initdef=0)
    edzed.FuncBlock('f0', func=lambda a: 0).connect(s, zz=s)


def _inv_underscore_kw():
    s = edzed.Input('s0', initdef=0)
    edzed.FuncBlock('f0', func=anyfunc).connect(_=s)


def _inv_connect_twice():
    s = edzed.Input('s0', initdef=0)
    edzed.FuncBlock('f0', func=anyfunc).connect(s).connect(s)


def _inv_connect_nothing():
    edzed.Input('s0', initdef=0)
    edzed.FuncBlock('f0', func=anyfunc).connect()


def _inv_group_in_positional():
    s = edzed.Input('s0', initdef=0)
    edzed.FuncBlock('f0', func=anyfunc).connect([s, s])


def _inv_duplicate_name():
    edzed.Input('s0', initdef=0)
    edzed.Input('s0', initdef=1)


def _inv_duplicate_name_cblock():
    s = edzed.Input('s0', initdef=0)
    edzed.Not('s0').connect(s)


def _inv_const_undef():
    edzed.Input('s0', initdef=0)
    edzed.FuncBlock('f0', func=anyfunc).connect(edzed.Const(edzed.UNDEF))


def _inv_reserved_name():
    edzed.Input('_mine', initdef=0)


def _inv_empty_name():
    edzed.Input('', initdef=0)


def _inv_nonstring_name():
    edzed.Input(5, initdef=0)


def _two_refs(permissive, strict, first):
    def prog():
        s0 = edzed.Input('s0', initdef=0)
        edzed.FuncBlock('c0', func=anyfunc).connect(s0)
        mk_p = {'ifoutput': lambda: edzed.IfOutput('c0'),
                'add_output': lambda: edzed.DataEdit.add_output('k', 'c0')}[permissive]
        never = lambda data: False      # noqa: E731
        if strict == 'event':
            mk_s = lambda: edzed.Event('c0', efilter=never)     # noqa: E731
        else:
            mk_s = lambda: edzed.Event(s0, efilter=[never, edzed.NotIfInitialized('c0')])   # noqa: E731
        if first == 'permissive':
            fp = mk_p()
            ev = mk_s()
        else:
            ev = mk_s()
            fp = mk_p()
        edzed.Input('s1', initdef=0, on_output=[ev, edzed.Event(s0, efilter=[never, fp])])
    return prog


INVALID = {f[5:]: globals()[f] for f in sorted(globals()) if f.startswith('_inv_')}
for _p in ('ifoutput', 'add_output'):
    for _s in ('event', 'notifinit'):
        for _f in ('permissive', 'strict'):
            INVALID[f"wrong_kind_{_s}_with_{_p}_{_f}_first"] = _two_refs(_p, _s, _f)


def run_invalid(cfg, acc):
    viol = []
    fn = INVALID[cfg['cls']]
    for path in ('explicit', 'implicit'):
        with Sim() as sim:
            try:
                fn()
            except Exception:   # pylint: disable=broad-except
                acc.outcome((cfg['cls'], path, 'construction'))
                acc.execs += 1
                continue
            circuit = edzed.get_circuit()
            failed = []
            if path == 'explicit':
                try:
                    circuit.finalize()
                except Exception:   # pylint: disable=broad-except
                    failed.append('finalize')

            async def driver():
                task = asyncio.create_task(circuit.run_forever())
                try:
                    await circuit.wait_init()
                except Exception:   # pylint: disable=broad-except
                    failed.append('start')
                else:
                    await sim.loop.idle()
                    if circuit.error is not None:
                        failed.append('start')
                await stop(circuit)
                del task
            sim.run(driver())
            acc.execs += 1
            acc.outcome((cfg['cls'], path, tuple(failed)))
            if 'start' not in failed:
                viol.append((f"invalid-accepted:{cfg['cls']}",
                             f"invalid program '{cfg['cls']}' ({path} finalisation) was accepted: "
                             f"construction and start succeeded"))
    acc.state(('invalid', cfg['cls']))
    return viol


def run_frozen(cfg, acc):
    viol = []
    path = cfg['path']
    with Sim() as sim:
        b = build(dict(c0=((DEFAULT,), {}), c1=0, c2=0, ev='none'))
        circuit = sim.circuit
        # before finalisation everything is still allowed
        try:
            circuit.set_persistent_data({})
            circuit.set_persistent_data(None)
            edzed.Input('early', initdef=0)
        except Exception as err:    # pylint: disable=broad-except
            viol.append(('frozen-too-early', f"before finalisation: {err!r}"))
        if path.startswith('explicit'):
            circuit.finalize()
            circuit.finalize()      # idempotent
            check_frozen(circuit, b, viol, 'after finalize()')
        if path != 'explicit':
            async def driver():
                task = asyncio.create_task(circuit.run_forever())
                await circuit.wait_init()
                check_frozen(circuit, b, viol, f'running ({path})')
                await stop(circuit)
                check_frozen(circuit, b, viol, f'after the stop ({path})')
                try:
                    await circuit.run_forever()
                except edzed.EdzedInvalidState:
                    pass
                except BaseException as err:    # pylint: disable=broad-except
                    viol.append(('restart', f"second run_forever() raised {err!r}"))
                else:
                    viol.append(('restart', "second run_forever() returned"))
                del task
            sim.run(driver())
    acc.execs += 1
    acc.state(('frozen', path))
    acc.outcome(('frozen', path, len(viol)))
    return viol


LATE_REFS = ('event', 'extevent', 'ifoutput', 'add_output', 'notifinit')


def run_late_ref(cfg, acc):
    viol = []
    ref, target = cfg['ref'], cfg['target']
    # what the name stands for: an SBlock, the (existing) inverter of a shortcut, nothing, a CBlock
    is_dest = ref in ('event', 'extevent')
    valid = target == 's1' or (target in ('_not_s0', 'c0') and ref in ('ifoutput', 'add_output'))
    label = f"{ref} naming {target!r}, created after an explicit Circuit.finalize()"
    with Sim() as sim:
        circuit = sim.circuit
        s0 = edzed.Input('s0', initdef=1)
        s1 = edzed.Input('s1', initdef=0)
        c0 = edzed.FuncBlock('c0', func=lambda a, b: (a, b)).connect(s0, '_not_s0')
        sink = edzed.Input('sink', initdef=None)
        circuit.finalize()
        obj = flt = None
        try:
            if ref == 'event':
                obj = edzed.Event(target, 'put')
            elif ref == 'extevent':
                obj = edzed.ExtEvent(target, 'put')
            elif ref == 'ifoutput':
                flt = edzed.IfOutput(target)
            elif ref == 'add_output':
                flt = edzed.DataEdit.add_output('k', target)
            else:
                flt = edzed.NotIfInitialized(target)
            if flt is not None:
                obj = edzed.Event(sink, 'put', efilter=flt)
            for _ in range(cfg['finalizes'] - 1):
                circuit.finalize()
        except Exception as err:    # pylint: disable=broad-except
            if valid:
                viol.append(('valid-program-rejected', f"{label}: {err!r}"))
            acc.outcome(('late-ref', ref, target, cfg['finalizes'], 'ctor-error'))
            return viol
        res = {}

        async def driver():
            task = asyncio.create_task(circuit.run_forever())
            try:
                await circuit.wait_init()
                res['started'] = True
            except Exception as err:    # pylint: disable=broad-except
                res['started'] = False
                res['start_err'] = repr(err)
            if res['started']:
                try:
                    if is_dest:
                        res['dest'] = obj.dest
                        res['ret'] = obj.send(7) if ref == 'extevent' else obj.send(s0, value=7)
                        res['s1'] = s1.output
                    else:
                        res['ret'] = obj.send(s0, value=7)
                        res['sink'] = sink.output
                        res['data'] = flt({'value': 7})
                except Exception as err:    # pylint: disable=broad-except
                    res['use_err'] = repr(err)
            await stop(circuit)
            del task
        sim.run(driver())
        acc.outcome(('late-ref', ref, target, cfg['finalizes'], repr(sorted(res.items()))))
        acc.state(('late-ref', ref, valid, res.get('started')))
        if not valid:
            if res['started']:
                viol.append(('invalid-accepted',
                             f"{label}: the name cannot be resolved to a block of the required kind, "
                             f"but the simulation started ({res})"))
            return viol
        if not res['started']:
            viol.append(('valid-program-rejected', f"{label}: start failed: {res['start_err']}"))
        elif 'use_err' in res:
            viol.append(('unresolved-name', f"{label}: using it in the running circuit raised {res['use_err']}"))
        elif is_dest:
            if res['dest'] is not s1 or res['s1'] != 7:
                viol.append(('event-dest', f"{label}: dest {res['dest']!r}, s1 = {res['s1']!r} after send(7)"))
        else:
            ctl = circuit.findblock(target)
            exp_pass = {'ifoutput': bool(ctl.output), 'add_output': True, 'notifinit': False}[ref]
            if bool(res['ret']) != exp_pass or (res['sink'] == 7) != exp_pass:
                viol.append(('filter-control-block',
                             f"{label}: control block output {ctl.output!r}, send() -> {res['ret']!r}, "
                             f"destination output {res['sink']!r}"))
            if ref == 'add_output' and (not isinstance(res['data'], dict) or res['data'].get('k') != ctl.output):
                viol.append(('filter-control-block', f"{label}: filter result {res['data']!r}, control "
                             f"block output {ctl.output!r}"))
    return viol


def run_shortcut_name(cfg, acc):
    viol = []
    name = cfg['name']
    label = f"'_not_{name}' ({'with' if cfg['decoys'] else 'without'} blocks named like the tails of {name!r})"
    for path in ('explicit', 'implicit'):
        with Sim() as sim:
            circuit = sim.circuit
            target = edzed.Input(name, initdef=True)
            if cfg['decoys']:
                for i in range(1, len(name)):
                    if not name[i:].startswith('_'):
                        edzed.Input(name[i:], initdef=False)
            user = edzed.Or('user').connect('_not_' + name)
            res = {}
            try:
                if path == 'explicit':
                    circuit.finalize()

                async def driver():
                    task = asyncio.create_task(circuit.run_forever())
                    await circuit.wait_init()
                    inv = circuit.findblock('_not_' + name)
                    res['inv_inputs'] = inv.inputs
                    res['user_inputs'] = user.inputs
                    res['oconn'] = inv in target.oconnections and user in inv.oconnections
                    res['out1'] = (inv.output, user.output)
                    edzed.ExtEvent(target).send(False)
                    await sim.loop.idle()
                    res['out2'] = (inv.output, user.output)
                    res['inv'] = inv
                    await stop(circuit)
                    del task
                sim.run(driver())
            except Exception as err:    # pylint: disable=broad-except
                viol.append(('valid-program-rejected', f"{label}, {path} finalisation: {err!r}"))
                continue
        acc.outcome(('shortcut-name', name, cfg['decoys'], path, repr(res.get('out1')), repr(res.get('out2'))))
        acc.state(('shortcut-name', name, cfg['decoys']))
        if (res['inv_inputs'] != {'_': (target,)} or res['user_inputs'] != {'_': (res['inv'],)}
                or not res['oconn'] or res['out1'] != (False, False) or res['out2'] != (True, True)):
            viol.append(('inverter-of-wrong-block',
                         f"{label}, {path} finalisation: the inverter's inputs are "
                         f"{[getattr(b, 'name', b) for b in res['inv_inputs'].get('_', ())]}, the user's "
                         f"{[getattr(b, 'name', b) for b in res['user_inputs'].get('_', ())]}; outputs (inverter, user) {res['out1']} while {name!r} is True, "
                         f"{res['out2']} while it is False"))
    return viol


def run_config(cfg):
    acc = Acc()
    if cfg['kind'] == 'shortcut-name':
        acc.execs += 2
        for sig, msg in run_shortcut_name(cfg, acc):
            acc.violation(f"C15:{sig}:shortcut-name", msg, cfg=cfg)
        return acc
    if cfg['kind'] == 'late-ref':
        acc.execs += 1
        for sig, msg in run_late_ref(cfg, acc):
            acc.violation(f"C15:{sig}:late-ref", msg, cfg=cfg)
        return acc
    if cfg['kind'] == 'prog':
        for path in ('explicit', 'implicit'):
            viol = run_prog(cfg, path, acc)
            acc.execs += 1
            acc.distinct += 1
            for sig, msg in viol[:3]:
                acc.violation(f"C15:{sig}", msg, cfg=cfg, detail={'path': path})
        acc.sample({'program': {'c0': cfg['c0'], 'c1': C1_SPECS[cfg['c1']], 'c2': C2_SPECS[cfg['c2']],
                                'events': cfg['ev']}}, limit=3)
    elif cfg['kind'] == 'shortcut':
        for path in ('explicit', 'implicit'):
            viol = run_shortcut(cfg, path, acc)
            acc.execs += 1
            acc.distinct += 1
            for sig, msg in viol[:3]:
                acc.violation(f"C15:{sig}:shortcut", msg, cfg=cfg, detail={'path': path})
    elif cfg['kind'] == 'invalid':
        for sig, msg in run_invalid(cfg, acc):
            acc.violation(f"C15:{sig}", msg, cfg=cfg)
    else:
        for sig, msg in run_frozen(cfg, acc):
            acc.violation(f"C15:{sig}", msg, cfg=cfg)
    return acc

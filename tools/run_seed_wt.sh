#!/bin/bash
# usage: tools/run_seed_wt.sh C03-1 [PID ...]  -- like run_seed.sh, but in a scratch worktree of /repo
# (VERIF_REPO points the checks at it), so that /repo itself stays untouched; evidence of such runs
# goes to a scratch directory under the system temp dir, never to /verif/evidence.
set -u
S=$1; shift
P=/verif/seeded/$S/patch.diff
PIDS=${@:-${S%%-*}}
WT=${WT:-/tmp/seedwt}
[ -d $WT ] || git -C /repo worktree add --detach -q $WT HEAD
cd $WT; git checkout -q --detach $(git -C /repo rev-parse HEAD); git reset -q --hard; git clean -fdq
if ! git apply "$P" 2>/dev/null; then
  git apply -3 "$P" >/dev/null 2>&1 || { git reset -q --hard; echo "APPLY FAILED $S"; exit 2; }
fi
cd /verif
for pid in $PIDS; do
  out=$(VERIF_REPO=$WT timeout 1200 /venv/bin/python -m vt $pid --tier ${TIER:-quick} 2>&1); rc=$?
  echo "== seed $S check $pid rc=$rc"
  echo "$out" | grep -A1 VIOLATION | grep -v "VIOLATION\|^--" | head -2
done
git -C $WT reset -q --hard

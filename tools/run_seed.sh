#!/bin/bash
# usage: tools/run_seed.sh C03-1 [PID ...]   -- apply a stored seed to /repo, run quick checks, undo.
set -u
S=$1; shift
P=/verif/seeded/$S/patch.diff
PIDS=${@:-${S%%-*}}
cd /repo
[ -z "$(git status --porcelain -- edzed)" ] || { echo "/repo not clean"; exit 2; }
git apply "$P" || { echo "APPLY FAILED $S"; exit 2; }
trap 'git -C /repo checkout -q -- .' EXIT
cd /verif
for pid in $PIDS; do
  out=$(timeout 1200 /venv/bin/python -m vt $pid --tier ${TIER:-quick} 2>&1); rc=$?
  echo "== seed $S check $pid rc=$rc"
  echo "$out" | grep -E "VIOLATION|KNOWN|HARNESS|^\[" | head -${LINES_MAX:-6}
  echo "$out" | grep -A1 VIOLATION | grep -v VIOLATION | head -3
done

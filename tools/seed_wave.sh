#!/bin/bash
# usage: tools/seed_wave.sh <wave-dir> <n1> <n2> ID...   -- scratch worktrees + task prompts for seed sub-agents
# (the sub-agent gets only the property text and its own worktree; nothing from /verif)
set -eu
ROOT=$1; N1=$2; N2=$3; shift 3
mkdir -p $ROOT
for ID in "$@"; do
  git -C /repo worktree add --detach -q $ROOT/$ID HEAD
  mkdir -p $ROOT/${ID}_out
  python3 - "$ID" "$ROOT" "$N1" "$N2" <<'PY'
import json,sys
ID,ROOT,N1,N2=sys.argv[1:5]
for line in open('/verif/properties.jsonl'):
    p=json.loads(line)
    if p['id']==ID: break
json.dump(p,open(f'{ROOT}/{ID}_out/property.json','w'),indent=1)
t=open('/verif/tools/seed_prompt_template.txt').read()
t=t.replace('/tmp/seed2',ROOT).replace('@ID@',ID).replace('@TITLE@',p.get('title',''))
t=t.replace('demo3.py',f'demo{N1}.py').replace('demo4.py',f'demo{N2}.py').replace('change3.diff',f'change{N1}.diff').replace('change4.diff',f'change{N2}.diff')
# earlier rounds' changes (from the tables in DESIGN.md): ask for different mechanisms
import re
tried=[]
for line in open('/verif/DESIGN.md'):
    m=re.match(r'\|\s*(C\d\d)-\d+(?:,\s*(C\d\d)-\d+)?\s*\|\s*([^|]+)\|',line)
    if m and m.group(1)==ID: tried.append(m.group(3).strip())
if tried:
    t+=("\n\nEarlier rounds already produced the following changes for this property. Do NOT repeat them or close "
        "variants of them; look for different mechanisms, other code paths and other clauses of the property:\n"
        + "".join(f" - {x}\n" for x in tried))
open(f'{ROOT}/{ID}_out/TASK.md','w').write(t)
PY
done

#!/venv/bin/python
"""
Run every stored seed against its property's quick check (tools/run_seed.sh) and record the
result in seeded/<id>/meta.json ('detected_by') and in seeded/RESULTS.md.
"""
import json, os, re, subprocess, sys
os.chdir('/verif')
only = sys.argv[1:]
rows = []
for d in sorted(os.listdir('seeded')):
    if not re.fullmatch(r'C\d\d-\d+', d) or (only and d not in only and d.split('-')[0] not in only):
        continue
    out = subprocess.run(['tools/run_seed.sh', d], capture_output=True, text=True).stdout
    m = re.search(r'rc=(\d+)', out)
    rc = int(m.group(1)) if m else -1
    sigs = re.findall(r'^\s+(C\d\d:[^\s:]+(?::[^\s:]+)?)', out, flags=re.M)
    status = 'detected' if rc == 1 and 'VIOLATION' in out else ('apply-failed' if 'APPLY FAILED' in out else f'missed(rc={rc})')
    meta_p = f'seeded/{d}/meta.json'
    meta = json.load(open(meta_p))
    meta['detected_by'] = {'check': d.split('-')[0], 'tier': 'quick', 'status': status,
                           'signatures': sorted(set(sigs))[:4]}
    json.dump(meta, open(meta_p, 'w'), indent=1)
    rows.append((d, status, ', '.join(sorted(set(sigs))[:3])))
    print(d, status, sorted(set(sigs))[:3], flush=True)
# RESULTS.md is rebuilt from all meta.json files (so partial runs keep it complete)
def _key(d):
    a, b = d.split('-')
    return (a, int(b))
with open('seeded/RESULTS.md', 'w') as f:
    f.write("| seed | quick check of its property | first signatures |\n|---|---|---|\n")
    for d in sorted((x for x in os.listdir('seeded') if re.fullmatch(r'C\d\d-\d+', x)), key=_key):
        try:
            db = json.load(open(f'seeded/{d}/meta.json')).get('detected_by') or {}
        except Exception:
            db = {}
        f.write(f"| {d} | {db.get('status', 'not run')} | {', '.join(db.get('signatures', [])[:3])} |\n")

"""
C19 - duration strings and numbers convert consistently in both directions.

Exhaustive enumeration of an input grid against a reference of the documented unit
arithmetic (docs/utils.rst): every integer of a range (quick 0..10^6 + neighbourhoods of all
unit multiples up to 10^7; thorough every integer 0..10^7), a millisecond float grid plus
rounding-boundary neighbourhoods, every rendering of a parts grid in both formats (case,
whitespace, decimal mark, optional 's', unnormalised numbers, zero years/months), a
grammar-derived malformed set, and time_period()'s type rules.
"""
from __future__ import annotations

import itertools
from fractions import Fraction

from edzed.utils import convert, time_period, timestr, timestr_approx

from ..explore import Acc

PROPERTY = 'C19'
LEVEL = 'exploration'
LEVEL_TEXT = ("Exhaustive enumeration of a finite input grid on the real conversion functions "
              "against an independent reference (exact rational unit arithmetic + a separate "
              "parser for the produced strings): every integer 0..10^6 (thorough 0..10^7), "
              "neighbourhoods of every unit multiple, a millisecond float grid and rounding "
              "boundaries x precisions, every rendering of a parts grid in both formats, a "
              "grammar-derived malformed set.")
LEVEL_NOTE = ("Not a state space: pure functions, so 'every input shape up to a bound against a "
              "reference model'. Floats outside the grid and strings outside the generated "
              "renderings are not covered. timestr_approx is held to the statement's bound "
              "(|error| < rounding step of the value's magnitude), not to round-to-nearest.")
TECHNIQUE = "exhaustive bounded input enumeration of the implementation vs. reference arithmetic"
RULE = ("integers: every n in the range, distinct by construction, non-trivial = n >= 60 (more "
        "than one unit); floats: grid k/1000 and boundary neighbourhoods x prec; renderings: "
        "every (parts, fraction, format variant) generated from numbers; malformed: fixed "
        "grammar-derived list; distinct = distinct inputs, counted")
ASSUMPTIONS = [
    "reference: day 86400, hour 3600, minute 60 (docs/utils.rst), exact rational arithmetic",
    "float comparisons use 1e-9 absolute slack for non-dyadic fractions",
]

D, H, M = 86400, 3600, 60
CHUNK = 62_500


def configs(tier):
    top = 1_000_000 if tier == 'quick' else 10_000_000
    out = [dict(kind='ints', lo=lo, hi=min(top, lo + CHUNK)) for lo in range(0, top, CHUNK)]
    if tier == 'quick':
        for unit in (M, H, D):
            kmax = 10_000_000 // unit + 1
            stepk = max(1, kmax // 8 + 1)
            out += [dict(kind='near', unit=unit, klo=k, khi=min(kmax, k + stepk))
                    for k in range(0, kmax, stepk)]
    out += [dict(kind='floats', lo=lo, hi=lo + 12_500) for lo in range(0, 200_000, 12_500)]
    out.append(dict(kind='fbound'))
    for dv in (None, 0, 1, 12):
        for hv in (None, 0, 2, 72):
            out.append(dict(kind='render', d=dv, h=hv))
    out.append(dict(kind='malformed'))
    out.append(dict(kind='period'))
    return out


# ------------------------------------------------------------------ reference

def ref_parse(s, sep=''):
    """
    Independent parser for the strings timestr()/timestr_approx() produce:
    parts '<int>d', '<int>h', '<int>m', '<num>s' in that order, joined by sep.
    -> (dict unit->str, Fraction value) or raises ValueError.
    """
    parts = s.split(sep) if sep else None
    if parts is None:
        parts, cur = [], ''
        for ch in s:
            cur += ch
            if ch in 'dhms':
                parts.append(cur)
                cur = ''
        if cur:
            raise ValueError(f"trailing {cur!r}")
    got = {}
    order = 'dhms'
    last = -1
    for p in parts:
        if not p or p[-1] not in order:
            raise ValueError(f"bad part {p!r}")
        u = p[-1]
        if order.index(u) <= last:
            raise ValueError(f"unit order {s!r}")
        last = order.index(u)
        num = p[:-1]
        if u != 's' and not num.isdigit():
            raise ValueError(f"non-integer {p!r}")
        if not num.replace('.', '', 1).isdigit() or num.startswith('.') or num.endswith('.'):
            raise ValueError(f"bad number {p!r}")
        got[u] = num
    sec = got.get('s', '0')
    val = (int(got.get('d', '0')) * D + int(got.get('h', '0')) * H + int(got.get('m', '0')) * M
           + (Fraction(sec) if '.' in sec else int(sec)))
    return got, val


def step(x):
    if x < 1:
        return Fraction(1, 1000)
    if x < 10:
        return Fraction(1, 100)
    if x < 60:
        return Fraction(1, 10)
    if x < 10 * H:
        return 1
    if x < 10 * D:
        return 60
    return 3600


def check_int(n, acc, cfg, seps=('',)):
    for sep in seps:
        s = timestr(n, sep=sep)
        try:
            got, val = ref_parse(s, sep)
        except ValueError as err:
            acc.violation('C19:timestr-int-format', f"timestr({n}, sep={sep!r}) = {s!r}: {err}",
                          cfg=cfg, detail={'n': n})
            continue
        if val != n:
            acc.violation('C19:timestr-int-value', f"timestr({n}) = {s!r} means {val}",
                          cfg=cfg, detail={'n': n})
        # documented shape: m and s always, d/h only when needed, normalised fields
        if ('m' not in got or 's' not in got or ('d' in got) != (n >= D)
                or ('h' in got) != (n >= H)
                or '.' in got['s']
                or not (int(got['m']) < 60 and int(got['s']) < 60
                        and int(got.get('h', 0)) < 24)):
            acc.violation('C19:timestr-int-shape', f"timestr({n}) = {s!r}", cfg=cfg,
                          detail={'n': n})
        if sep.strip() == '':
            try:
                back = convert(s)
            except ValueError as err:
                acc.violation('C19:inverse-int', f"convert(timestr({n}, sep={sep!r})={s!r}) raised {err}",
                              cfg=cfg, detail={'n': n})
                continue
            if back != n or type(back) is not float:
                acc.violation('C19:inverse-int', f"convert(timestr({n})={s!r}) = {back!r}",
                              cfg=cfg, detail={'n': n})
    a = timestr_approx(n)
    try:
        _got, val = ref_parse(a)
    except ValueError as err:
        acc.violation('C19:approx-format', f"timestr_approx({n}) = {a!r}: {err}", cfg=cfg,
                      detail={'n': n})
        return
    if not abs(val - n) < step(n):
        acc.violation('C19:approx-error', f"timestr_approx({n}) = {a!r} = {val}, step {step(n)}",
                      cfg=cfg, detail={'n': n})
    if n < 10 * H and val != n:
        # below ten hours integers are not rounded at all (decimal places 'down to zero')
        acc.violation('C19:approx-error', f"timestr_approx({n}) = {a!r} = {val} (integer < 10h)",
                      cfg=cfg, detail={'n': n})
    try:
        if convert(a) != val:
            acc.violation('C19:approx-convert', f"convert({a!r}) = {convert(a)!r} != {val}",
                          cfg=cfg, detail={'n': n})
    except ValueError as err:
        acc.violation('C19:approx-convert', f"convert(timestr_approx({n})={a!r}) raised {err}",
                      cfg=cfg, detail={'n': n})


EPS = Fraction(1, 10**9)


def check_float(x, acc, cfg, precs=(0, 1, 3, 6)):
    fx = Fraction(x)
    for prec in precs:
        for sep in ('', ' '):
            s = timestr(x, sep=sep, prec=prec)
            try:
                back = convert(s)
            except ValueError as err:
                acc.violation('C19:inverse-float', f"convert(timestr({x!r}, prec={prec})={s!r}) raised {err}",
                              cfg=cfg, detail={'x': x, 'prec': prec})
                continue
            if abs(Fraction(back) - fx) > Fraction(1, 2 * 10**prec) + EPS * max(1, int(fx)):
                acc.violation('C19:inverse-float',
                              f"convert(timestr({x!r}, prec={prec})={s!r}) = {back!r}",
                              cfg=cfg, detail={'x': x, 'prec': prec})
            try:
                got, val = ref_parse(s, sep)
            except ValueError as err:
                acc.violation('C19:timestr-float-format', f"timestr({x!r}, prec={prec}) = {s!r}: {err}",
                              cfg=cfg, detail={'x': x, 'prec': prec})
                continue
            if abs(val - fx) > Fraction(1, 2 * 10**prec) + EPS * max(1, int(fx)):
                acc.violation('C19:timestr-float-value',
                              f"timestr({x!r}, prec={prec}) = {s!r} means {float(val)}",
                              cfg=cfg, detail={'x': x, 'prec': prec})
            dec = got['s'].partition('.')[2]
            if len(dec) != prec or 'm' not in got:
                acc.violation('C19:timestr-float-shape',
                              f"timestr({x!r}, prec={prec}) = {s!r}: {prec} decimals expected",
                              cfg=cfg, detail={'x': x, 'prec': prec})
    a = timestr_approx(x)
    try:
        _got, val = ref_parse(a)
    except ValueError as err:
        acc.violation('C19:approx-format', f"timestr_approx({x!r}) = {a!r}: {err}", cfg=cfg,
                      detail={'x': x})
        return
    if not abs(val - fx) < step(fx) + EPS:
        acc.violation('C19:approx-error',
                      f"timestr_approx({x!r}) = {a!r} = {float(val)}, step {step(fx)}",
                      cfg=cfg, detail={'x': x})


# ------------------------------------------------------------------ renderings

FRACS = [None, ('.', '5'), (',', '25'), ('.', '125'), (',', '500'), ('.', '1')]
WS = [('', '', '', ''), (' ', '', '', ''), ('', ' ', '', ''), ('  ', '\t', ' ', ' '),
      ('', '', ' ', '  ')]     # (between parts, between number and unit, leading, trailing)


def renderings(parts):
    """parts: list of (unit, intvalue) present, in d,h,m,s order -> yields (string, Fraction)."""
    scale = {'d': D, 'h': H, 'm': M, 's': 1}
    for frac in FRACS:
        nums = [str(v) for (_u, v) in parts]
        val = sum(Fraction(v) * scale[u] for (u, v) in parts)
        if frac is not None:
            nums[-1] += frac[0] + frac[1]
            val += Fraction('0.' + frac[1]) * scale[parts[-1][0]]
        units = [u for (u, _v) in parts]
        # traditional
        for cases in itertools.product((0, 1), repeat=len(parts)):
            for between, inner, lead, trail in WS:
                us = [u.upper() if c else u for u, c in zip(units, cases)]
                body = between.join(n + inner + u for n, u in zip(nums, us))
                yield lead + body + trail, val, 'trad'
                if units[-1] == 's' and not cases[-1]:
                    body = between.join(
                        n + (inner + u if i < len(us) - 1 else '')
                        for i, (n, u) in enumerate(zip(nums, us)))
                    yield lead + body + trail, val, 'trad-no-s'
        # ISO 8601
        date = ''.join(n + 'D' for n, u in zip(nums, units) if u == 'd')
        tm = ''.join(n + u.upper() for n, u in zip(nums, units) if u != 'd')
        for pre in ('', '0Y', '0M', '0Y0M'):
            yield 'P' + pre + date + ('T' + tm if tm else ''), val, 'iso'


MALFORMED = [
    '', ' ', '\t', 'd', 'h', 'm', 's', 'D', 'x', '1x', '1h2d', '1m2h', '1s2m', '5s1d', '1h1h',
    '1d1d', '1s1s', '2m3m', '1.5h30m', '1,5d12h', '1.5d1s', '2.5m10', '1.5m10s', '0.5h0m',
    'P1Y', 'P1M', 'P1Y1D', 'P0Y1M', 'P2M1DT1H', 'P', 'PT', 'T1H', '1DT2H', 'P1D2H',
    'P1H', 'PT1D', 'P1S', 'p1d', 'pt1h', 'pt1m', 'P T 10 S', '1 0 0s', 'Pt1H', 'PT1h', 'P1dT1H', 'PT1H1H', 'PT1M1H', 'PT1S1M',
    'P1DT1.5H30M', 'P1.5DT1H', 'PT1,5M10S', 'PP1D', 'P1DTT1H', 'P1D1D', 'P-1D', 'PT-5S',
    '-5s', '-5', '+5s', '- 5s', '1e3s', '1e3', '1E3', '1.2.3s', '1,2,3', '1.2,3', '1..2s',
    '1_000s', '0x10', '1h 2 m 3 x', '1h;2m', '1h,2m', '1h+2m', 'one hour', '1 hour', '1hr',
    '1min', '1sec', '5ss', '5mm', '1w', '1y', 'inf', 'nan', 'PT5', 'P5', '5P', 'PT5S5',
    # characters outside ASCII that only look like digits, blanks or unit symbols (Arabic-Indic,
    # full-width and Devanagari digits; no-break, thin, ideographic space, separators FS..US;
    # LATIN SMALL LETTER LONG S, which case-folds to 's')
    '\u0663m', '\u0661\u0662s', '1\u0663s', '\uff11\uff12s', '\uff15', '\u0967h', 'PT\u0665S', 'P\u0664D',
    'P1DT\uff12H', '1.\u0665s', '1h\u00a030m', '\u00a01h', '1h\u2009', '1\u2009h', '1d\u30002h',
    '1h\x1c2m', '\x1f5s', '5s\x1d', 'PT1H\u00a0', '\u2003P1D', '5\u017f', '1m5\u017f', '1m 5 \u017f',
    '1\u212a', '1\u0131', '1\u0130',
]


def run_config(cfg):
    acc = Acc()
    kind = cfg['kind']
    if kind == 'ints':
        for n in range(cfg['lo'], cfg['hi']):
            check_int(n, acc, cfg)
        cnt = cfg['hi'] - cfg['lo']
        acc.execs += cnt
        acc.distinct += max(0, cfg['hi'] - max(cfg['lo'], 60))
        acc.sample({'kind': 'ints', 'range': [cfg['lo'], cfg['hi']],
                    'example': [cfg['hi'] - 1, timestr(cfg['hi'] - 1), timestr_approx(cfg['hi'] - 1)]},
                   limit=1)
    elif kind == 'near':
        seen = set()
        unit = cfg['unit']
        for k in range(cfg['klo'], cfg['khi']):
            for dlt in range(-3, 4):
                n = k * unit + dlt
                if n >= 0:
                    seen.add(n)
                    check_int(n, acc, cfg, seps=('', ' ', ' \t ') if unit != M else ('',))
        acc.execs += len(seen)
        acc.distinct += len(seen)
        acc.count('near_multiples', len(seen))
    elif kind == 'floats':
        for k in range(cfg['lo'], cfg['hi']):
            check_float(k / 1000, acc, cfg)
        acc.execs += (cfg['hi'] - cfg['lo']) * 9
        acc.distinct += cfg['hi'] - cfg['lo']
    elif kind == 'fbound':
        xs = set()
        bases = [1, 10, 59, 60, 61, 119, 120, 600, 3599, 3600, 3601, 35999, 36000, 36001,
                 86399, 86400, 86401, 863999, 864000, 864001, 172799, 172800, 8639999]
        for b in bases:
            for mag in (0.0001, 0.001, 0.01, 0.1, 1.0):
                for f in (4, 5, 6):
                    for sign in (-1, 1):
                        xs.add(b + sign * f * mag)
                        xs.add(b + 29 + sign * f * mag)
                        xs.add(b + 30 + sign * f * mag)
            xs.add(float(b))
        for b in (0.0, 0.0004, 0.0005, 0.0006, 0.9994, 0.9995, 0.9996, 9.994, 9.995, 9.996,
                  59.94, 59.95, 59.96, 59.9996, 86399.9995, 0.5, 1.5, 2.5):
            xs.add(b)
        for x in sorted(xs):
            if x >= 0:
                check_float(x, acc, cfg)
                acc.execs += 9
                acc.distinct += 1
        acc.sample({'kind': 'fbound', 'example': [59.9996, timestr(59.9996), timestr_approx(59.9996)]})
    elif kind == 'render':
        for mv in (None, 0, 3, 90):
            for sv in (None, 0, 4, 75):
                parts = [(u, v) for u, v in zip('dhms', (cfg['d'], cfg['h'], mv, sv))
                         if v is not None]
                if not parts:
                    continue
                for s, val, fmt in renderings(parts):
                    acc.execs += 1
                    acc.distinct += 1
                    try:
                        got = convert(s)
                    except ValueError as err:
                        acc.violation(f'C19:rendering-rejected:{fmt}',
                                      f"convert({s!r}) raised {err}; expected {float(val)}",
                                      cfg=cfg, detail={'string': s})
                        continue
                    if type(got) is not float or abs(Fraction(got) - val) > EPS * max(1, int(val)):
                        acc.violation(f'C19:unit-arithmetic:{fmt}',
                                      f"convert({s!r}) = {got!r}, expected {float(val)}",
                                      cfg=cfg, detail={'string': s})
                    if time_period(s) != got:
                        acc.violation('C19:time_period-string',
                                      f"time_period({s!r}) = {time_period(s)!r} != convert = {got!r}",
                                      cfg=cfg, detail={'string': s})
                acc.sample({'kind': 'render', 'parts': parts,
                            'example': next(iter(renderings(parts)))[0]}, limit=1)
    elif kind == 'malformed':
        # the verdict depends on the string alone, not on what was converted before: the list is
        # tried, then well-formed look-alikes (case / blanks changed) are converted, then the list
        # is tried again
        def lookalikes():
            for m in MALFORMED:
                for v in {m.upper(), m.lower(), m.replace(' ', ''), m.upper().replace(' ', ''),
                          'P' + m.upper() if not m.upper().startswith('P') else m.upper()}:
                    try:
                        convert(v)
                    except Exception:   # pylint: disable=broad-except
                        pass
            for v in ('PT1M', '100s', 'PT10S', '1d', 'P1D', '1H', 'pt1m'.upper()):
                convert(v)
        for s in MALFORMED + [None] + MALFORMED:
            if s is None:
                lookalikes()
                continue
            acc.execs += 1
            acc.distinct += 1
            for fn in (convert, time_period):
                try:
                    got = fn(s)
                except ValueError:
                    continue
                except Exception as err:    # pylint: disable=broad-except
                    acc.violation('C19:malformed-wrong-error',
                                  f"{fn.__name__}({s!r}) raised {type(err).__name__}: {err}",
                                  cfg=cfg, detail={'string': s})
                else:
                    acc.violation('C19:malformed-accepted', f"{fn.__name__}({s!r}) = {got!r}",
                                  cfg=cfg, detail={'string': s})
        acc.sample({'kind': 'malformed', 'example': MALFORMED[:8]})
    else:   # time_period's type rules
        cases = [(None, None), (0, 0.0), (5, 5.0), (-5, 0.0), (-1, 0.0), (10**7, 1e7), (2.5, 2.5),
                 (-2.5, 0.0), (-1e-9, 0.0), (0.0, 0.0), (1e-9, 1e-9), (True, 1.0),
                 (float('inf'), float('inf')), (-float('inf'), 0.0)]
        for arg, exp in cases:
            acc.execs += 1
            acc.distinct += 1
            try:
                got = time_period(arg)
            except Exception as err:    # pylint: disable=broad-except
                acc.violation('C19:time_period-number', f"time_period({arg!r}) raised {err!r}",
                              cfg=cfg)
                continue
            if exp is None:
                ok = got is None
            else:
                ok = type(got) is float and got == exp
            if not ok:
                acc.violation('C19:time_period-number',
                              f"time_period({arg!r}) = {got!r}, expected {exp!r}", cfg=cfg)
        for arg in ([], (1,), b'1s', object(), {'s': 1}, 1j):
            acc.execs += 1
            acc.distinct += 1
            try:
                got = time_period(arg)
            except (TypeError, ValueError):
                continue
            except Exception as err:    # pylint: disable=broad-except
                acc.violation('C19:malformed-wrong-error', f"time_period({arg!r}) raised {err!r}",
                              cfg=cfg)
            else:
                acc.violation('C19:malformed-accepted', f"time_period({arg!r}) = {got!r}", cfg=cfg)
    return acc

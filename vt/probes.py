"""Probe blocks defined on the harness side (no source hooks)."""
from __future__ import annotations

import asyncio

import edzed


class Probe(edzed.SBlock):
    """
    Records every event it receives as (t_us, name, etype, data-dict[, extra]).
    x_log: shared list; x_extra: optional callable returning something to record with it.
    """

    def __init__(self, *args, log, extra=None, retval=None, **kwargs):
        self.log = log
        self._extra = extra
        self._retval = retval
        self.depth = 0
        self.max_depth = 0
        super().__init__(*args, **kwargs)

    def init_regular(self):
        self.set_output(0)

    def _event(self, etype, data):
        self.depth += 1
        self.max_depth = max(self.max_depth, self.depth)
        try:
            t = asyncio.get_running_loop().now_us
            rec = (t, self.name, etype, dict(data))
            if self._extra is not None:
                rec = rec + (self._extra(),)
            self.log.append(rec)
            return self._retval
        finally:
            self.depth -= 1


# ---------------------------------------------------------------------------------------------
# Life-cycle probe blocks (C05, C08, C09, C14): every routine the simulator may call is logged
# and can be given a behaviour per instance.

class Fault(Exception):
    """An exception injected by the harness."""


def _now():
    try:
        return asyncio.get_running_loop().now_us
    except RuntimeError:
        return -1


def _act(blk, action):
    """
    action: None | ('set', value) | ('raise', exception instance) | ('call', fn(block)) |
            ('seq', [actions])
    """
    if action is None:
        return None
    kind = action[0]
    if kind == 'set':
        blk.set_output(action[1])
        return None
    if kind == 'raise':
        raise action[1]
    if kind == 'call':
        return action[1](blk)
    if kind == 'seq':
        for a in action[1]:
            _act(blk, a)
        return None
    raise ValueError(f"unknown action {action!r}")


_lblock_cache = {}


def lblock_class(*, persist=False, ainit=False, astop=False, maintask=False, ifv=False,
                 regular=True):
    """
    Build (and cache) a probe SBlock class from the real add-ons.
    persist: AddonPersistence; ainit/astop: init_async/stop_async defined (AddonAsync);
    maintask: AddonMainTask; ifv: init_from_value defined (accepts initdef);
    regular: init_regular defined.
    Instances take: log (shared list), cfg (dict phase -> action, see _act; 'ainit' / 'astop' /
    'maintask' -> (delay_seconds, action)).
    """
    key = (persist, ainit, astop, maintask, ifv, regular)
    if key in _lblock_cache:
        return _lblock_cache[key]
    bases = []
    if persist:
        bases.append(edzed.AddonPersistence)
    if maintask:
        bases.append(edzed.AddonMainTask)
    elif ainit or astop:
        bases.append(edzed.AddonAsync)
    bases.append(edzed.SBlock)

    def __init__(self, *args, log, cfg=None, **kwargs):
        self.log = log
        self.cfg = dict(cfg or {})
        self.calls = {}
        self.events = []
        super(cls, self).__init__(*args, **kwargs)

    def _do(self, phase):
        self.log.append((_now(), self.name, phase, self._output is not edzed.UNDEF))
        self.calls[phase] = self.calls.get(phase, 0) + 1
        return _act(self, self.cfg.get(phase))

    def start(self):
        self._do('start')
        super(cls, self).start()
        self._do('started')

    def stop(self):
        self._do('stop')
        super(cls, self).stop()

    def _event(self, etype, data):
        self.events.append((_now(), etype, dict(data)))
        self._do('event')
        if 'on_event' in self.cfg:
            return self.cfg['on_event'](self, etype, data)
        if 'value' in data:
            self.set_output(data['value'])
        else:
            self.set_output(('ev', len(self.events)))
        return self.cfg.get('retval', 'handled')

    ns = {'__init__': __init__, '_do': _do, 'start': start, 'stop': stop, '_event': _event}
    if regular:
        def init_regular(self):
            self._do('init_regular')
        ns['init_regular'] = init_regular
    if ifv:
        def init_from_value(self, value):
            self._do('init_from_value')
            if 'init_from_value' not in self.cfg:
                self.set_output(value)
        ns['init_from_value'] = init_from_value
    if persist:
        def _restore_state(self, state):
            self._do('restore')
            if 'restore' not in self.cfg:
                self.set_output(state)
        ns['_restore_state'] = _restore_state
    if ainit:
        async def init_async(self):
            self._do('init_async')
            delay, action = self.cfg.get('ainit', (0, None))
            if delay is None:
                await asyncio.get_running_loop().create_future()    # never returns
            if delay:
                await asyncio.sleep(delay)
            _act(self, action)
            self._do('init_async_end')
        ns['init_async'] = init_async
    if astop:
        async def stop_async(self):
            self._do('stop_async')
            try:
                delay, action = self.cfg.get('astop', (0, None))
                if delay is None:
                    await asyncio.get_running_loop().create_future()
                if delay:
                    await asyncio.sleep(delay)
                _act(self, action)
                self._do('stop_async_end')
                await super(cls, self).stop_async()
            finally:
                # the coroutine is over, whatever the reason (finished, failed, cancelled at the timeout)
                self.log.append((_now(), self.name, 'stop_async_exit', self._output is not edzed.UNDEF))
        ns['stop_async'] = stop_async
    if maintask:
        async def _maintask(self):
            self._do('maintask_begin')
            delay, action = self.cfg.get('maintask', (None, None))
            if delay is None:
                await asyncio.get_running_loop().create_future()
            await asyncio.sleep(delay)
            _act(self, action)
            self._do('maintask_end')
        ns['_maintask'] = _maintask
    name = 'LB' + ''.join(c for c, f in zip('PISMVR', key) if f)
    cls = type(name, tuple(bases), ns)
    _lblock_cache[key] = cls
    return cls

"""
C14 - external events enter only a running circuit and are always marked as external.

Life-cycle exploration: one execution per (phase, termination cause); in that phase EVERY data
shape is sent to EVERY destination kind with every constructor-level default source.  Phases:
circuit built, task created, inside a synchronous initialisation routine, during asynchronous
initialisation, running, abort requested (same instant), inside a synchronous clean-up routine,
during asynchronous clean-up, finished, start failed, after reset_circuit().
Name space: every way a block obtains a name (explicit names over an alphabet, automatic names
for user classes over a class-name alphabet, automatic library blocks) x internal sender kind:
no internally generated event may carry a source beginning with '_ext_'.
"""
from __future__ import annotations

import asyncio

import edzed

from ..explore import Acc
from ..harness import Sim, stop
from ..probes import lblock_class, Fault

PROPERTY = 'C14'
LEVEL = 'model_checking'
LEVEL_TEXT = ("Bounded exhaustive exploration of the real life cycle on the virtual loop: for "
              "each phase (14) x termination cause, every data shape (23) x destination kind (6) x "
              "default source (7) is sent with ExtEvent.send(); delivered iff the phase is 'task "
              "started and no error yet', otherwise EdzedInvalidState and the destination saw "
              "nothing; delivered data and return values compared with a reference; plus the "
              "block name space (explicit / automatic names x internal sender kinds) for the "
              "'_ext_' prefix.")
LEVEL_NOTE = ("Phases inside synchronous routines are reached by probe blocks whose init/stop "
              "routines call back into the driver; asynchronous phases by virtual time; class "
              "names for automatic naming from a 10-element alphabet.")
TECHNIQUE = ("explicit-state exploration of the implementation's life cycle (phase x cause x data "
             "shape x destination) vs. reference")
RULE = ("a case = (phase, cause, destination kind, default source, data shape); state = (phase, "
        "cause); transition = life-cycle step; outcome = (case, delivered/refused, data); "
        "distinct = distinct outcomes")
ASSUMPTIONS = ["'running' = the simulation task has started and no error/stop was requested yet "
               "(docs/simulation.rst: is_ready)"]

PHASES = ['built', 'finalized', 'aborted-before-start', 'task-created', 'first-yield', 'sync-init', 'async-init', 'running', 'abort-called',
          'stopping-sync', 'stopping-async', 'finished', 'start-failed', 'reset']
CAUSES = ['shutdown', 'abort-exc', 'handler-error', 'cancel-task', 'ctrl-shutdown', 'ctrl-abort',
          'calc-error', 'task-error']
DELIVER = {'first-yield', 'sync-init', 'async-init', 'running'}

MUT = [1, 2]
SHAPES = [
    ((), {}), ((5,), {}), ((), {'value': 6}), ((None,), {}), ((0,), {'x': 1, 'y': MUT}),
    ((), {'source': 'x'}), ((), {'source': ''}), ((), {'source': '_ext_'}),
    ((), {'source': '_ext_x'}), ((), {'source': '_x'}), ((), {'source': 'ext_'}),
    ((), {'source': '_EXT_x'}), ((7,), {'source': 'me', 'trigger': 't', 'previous': 1}),
    ((), {'source': '_ext'}), ((), {'source': '_extra'}), ((), {'source': '_ext-1'}),
    ((), {'source': '_ex'}), ((), {'source': '_'}), ((), {'source': ' _ext_x'}),
    ((), {'etype': 'e1', 'data': 2}), ((3,), {'etype': None, 'data': {}}),
    ((), {'source': 5}), ((), {'source': None}), ((edzed.UNDEF,), {}), (('',), {'source': ' _ext_'}),
]
CTOR_SOURCES = [None, 'abc', '_ext_abc', '', '_ext', '_extabc', '_ex']
KINDS = ['probe', 'probeS', 'input', 'fsm', 'repeat', 'counter']


def configs(tier):
    out = []
    for ph in PHASES:
        if ph in ('abort-called', 'stopping-sync', 'stopping-async', 'finished'):
            for cause in CAUSES:
                if ph == 'abort-called' and cause in ('calc-error', 'task-error'):
                    continue    # these reach the simulator later, not in the instant of the request
                out.append(dict(kind='phase', phase=ph, cause=cause))
        else:
            out.append(dict(kind='phase', phase=ph, cause=None))
    out += [dict(c, persist=True) for c in out
            if tier != 'quick' or c['phase'] in ('running', 'first-yield', 'sync-init', 'async-init', 'built', 'finished')]
    # an error inside the simulation task (failing output function, unstable network, failing
    # monitored task): from the moment it happened - in every following loop iteration - the
    # circuit is not running any more
    for cause in ('calc-error', 'unstable', 'task-error', 'handler-error', 'abort-in-handler'):
        out.append(dict(kind='after-failure', cause=cause))
    out += [dict(kind='names', part=p) for p in range(4)]
    out.append(dict(kind='ctor'))
    return out


class ProbeS(edzed.SBlock):
    """Specialised handler: data arrive as keyword arguments."""
    def __init__(self, *args, seen, **kwargs):
        self.seen = seen
        super().__init__(*args, **kwargs)

    def init_regular(self):
        self.set_output(0)

    def _event_xyz(self, **data):
        self.seen.append(('probeS', 'xyz', data))
        return ('probeS-ret', len(self.seen))


class RecInput(edzed.Input):
    def __init__(self, *args, seen, **kwargs):
        self.seen = seen
        super().__init__(*args, **kwargs)

    def _event_put(self, *, value, **data):
        self.seen.append(('input', 'put', {'value': value, **data}))
        return super()._event_put(value=value, **data)


class RecFSM(edzed.FSM):
    STATES = ['a', 'b']
    EVENTS = [['go', None, 'b'], ['back', None, 'a']]

    def cond_go(self):
        self.x_seen.append(('fsm', 'go', dict(edzed.fsm_event_data.get())))
        return True


def expected_data(ctor_source, args, kwargs):
    """-> dict or an exception class"""
    data = dict(kwargs)
    if args and args[0] is not edzed.UNDEF:
        data['value'] = args[0]
    if 'source' in kwargs:
        src = kwargs['source']
        if not isinstance(src, str):
            return TypeError
        data['source'] = src if src.startswith('_ext_') else '_ext_' + src
    else:
        cs = '_ext_' if ctor_source is None else ctor_source
        data['source'] = cs if cs.startswith('_ext_') else '_ext_' + cs
    return data


def run_phase(cfg, acc):
    phase, cause = cfg['phase'], cfg['cause']
    viol = []
    seen = []
    log = []
    with Sim() as sim:
        circuit = sim.circuit
        LP = lblock_class()
        probe = LP('probe', log=log, cfg={
            'init_regular': ('set', 0),
            'on_event': lambda blk, et, data: (seen.append(('probe', et, dict(data))),
                                               ('probe-ret', len(seen)))[1]})
        probe2 = LP('probe2', log=log, cfg={
            'init_regular': ('set', 0),
            'on_event': lambda blk, et, data: seen.append(('repeat', et, dict(data)))})
        probes = ProbeS('probeS', seen=seen)
        pkw = {}
        if cfg.get('persist'):
            # destinations that save their state after each event (the event goes through one
            # more layer, which must pass the handler's result on)
            pkw = {'persistent': True}
            circuit.set_persistent_data({})
        inp = RecInput('input', seen=seen, initdef='i', **pkw)
        fsm = RecFSM('fsm', x_seen=seen, **pkw)
        rpt = edzed.Repeat('repeat', dest=probe2, etype='rp', interval=1000)
        cnt = edzed.Counter('counter', **pkw)
        dests = {'probe': (probe, 'anything'), 'probeS': (probes, 'xyz'), 'input': (inp, 'put'),
                 'fsm': (fsm, 'go'), 'repeat': (rpt, 'rp'), 'counter': (cnt, 'inc')}
        senders = {}
        for kind, (blk, et) in dests.items():
            for cs in CTOR_SOURCES:
                for byname in (False, True):
                    ref = blk.name if byname else blk
                    senders[(kind, cs, byname)] = (edzed.ExtEvent(ref, et) if cs is None
                                                   else edzed.ExtEvent(ref, et, source=cs))
        state = {'done': False}

        def fire_all(label):
            """Send every shape to every destination; judge each."""
            if state['done']:
                return
            state['done'] = True
            deliver = phase in DELIVER
            for (kind, cs, byname), sender in senders.items():
                if kind in ('input', 'counter') and byname:
                    continue
                for si, (args, kwargs) in enumerate(SHAPES):
                    if kind == 'input' and 'value' not in kwargs and (
                            not args or args[0] is edzed.UNDEF):
                        continue        # parameter error of the caller, not our subject
                    acc.execs += 1
                    kwargs = dict(kwargs)
                    n0 = len(seen)
                    cnt0 = cnt.output
                    exp = expected_data(cs, args, kwargs)
                    try:
                        ret = sender.send(*args, **kwargs)
                        raised = None
                    except BaseException as err:    # pylint: disable=broad-except
                        ret, raised = None, err
                    new = [r for r in seen[n0:] if 'source' in r[2]]
                    tag = (f"{label}: ExtEvent({kind}{' by name' if byname else ''}, source={cs!r})"
                           f".send(*{args!r}, **{kwargs!r})")
                    acc.outcome((phase, cause, bool(cfg.get('persist')), kind, cs, si, type(raised).__name__,
                                 repr(new[0][2]) if new else None))
                    if not deliver or exp is TypeError:
                        want = edzed.EdzedInvalidState if not deliver else TypeError
                        ok_exc = isinstance(raised, want) or (
                            not deliver and exp is TypeError and isinstance(raised, TypeError))
                        if new or cnt.output != cnt0:
                            viol.append(('delivered-while-not-running' if not deliver
                                         else 'delivered-despite-error',
                                         f"{tag}: destination saw {new or cnt.output}"))
                        elif not ok_exc:
                            viol.append(('not-refused' if not deliver else 'bad-source-accepted',
                                         f"{tag}: raised {raised!r}, returned {ret!r}; expected "
                                         f"{want.__name__}"))
                        continue
                    if raised is not None:
                        viol.append(('refused-while-running', f"{tag}: raised {raised!r}"))
                        continue
                    if kind == 'counter':
                        if cnt0 is edzed.UNDEF:
                            cnt0 = 0        # initialised on the spot by the pending event
                        if cnt.output != cnt0 + 1 or ret != cnt.output:
                            viol.append(('return-value', f"{tag}: counter {cnt0} -> {cnt.output}, "
                                         f"returned {ret!r}"))
                        continue
                    if len(new) != 1:
                        viol.append(('delivery-count', f"{tag}: destination saw {new}"))
                        continue
                    got = new[0][2]
                    if kind == 'repeat':
                        got = {k: v for k, v in got.items() if k not in ('repeat', 'orig_source')}
                        if new[0][2].get('orig_source') != exp['source'] or \
                                new[0][2].get('source') != 'repeat':
                            viol.append(('data-items', f"{tag}: via Repeat: {new[0][2]}"))
                        got['source'] = exp['source']
                    if got != exp or any(got[k] is not exp[k] for k in ('y',) if k in exp):
                        viol.append(('data-items', f"{tag}: destination got {got}, expected {exp}"))
                    if not str(new[0][2].get('source' if kind != 'repeat' else 'orig_source')
                               ).startswith('_ext_'):
                        viol.append(('source-not-marked', f"{tag}: {new[0][2]}"))
                    exp_ret = {'probe': ('probe-ret', len(seen)), 'probeS': ('probeS-ret', len(seen)),
                               'input': True, 'fsm': True, 'repeat': None}[kind]
                    if ret != exp_ret:
                        viol.append(('return-value', f"{tag}: returned {ret!r}, expected {exp_ret!r}"))

        hook_cfg = {'init_regular': ('seq', [('set', 0)])}
        if phase == 'sync-init':
            hook_cfg['init_regular'] = ('seq', [('set', 0), ('call', lambda b: fire_all('inside init_regular'))])
        if phase == 'stopping-sync':
            hook_cfg['stop'] = ('call', lambda b: fire_all(f'inside stop() after {cause}'))
        if phase == 'start-failed':
            hook_cfg['start'] = ('raise', Fault('start'))
        if cause == 'handler-error':
            hook_cfg['event'] = ('raise', Fault('handler'))
        hook = lblock_class()('hook', log=log, cfg=hook_cfg)
        ctl = edzed.OutputFunc('ctl', func=lambda value: value, on_error=None, on_success=(
            edzed.Event.abort() if cause == 'ctrl-abort' else edzed.Event.shutdown()))
        trig = edzed.Input('trig', initdef=0)

        def calc(a):
            if a == 'boom':
                raise Fault('calc_output')
            return a
        edzed.FuncBlock('fb', func=calc).connect(trig)
        boom_task = lblock_class(maintask=True)('mtask', log=log, cfg={
            'init_regular': ('set', 0),
            'maintask': (12.5, ('raise', Fault('task')))}, stop_timeout=20)
        del boom_task
        slow = lblock_class(ainit=True, astop=True)(
            'slow', log=log, cfg={'ainit': (5, ('set', 1)), 'astop': (5, None)},
            init_timeout=20, stop_timeout=20)
        del slow

        def terminate(task):
            if cause == 'shutdown':
                return asyncio.ensure_future(stop(circuit))
            if cause == 'abort-exc':
                circuit.abort(Fault('abort'))
            elif cause == 'handler-error':
                try:
                    edzed.ExtEvent(hook, 'boom').send()
                except Fault:
                    pass
            elif cause == 'cancel-task':
                task.cancel()
            elif cause in ('ctrl-shutdown', 'ctrl-abort'):
                edzed.ExtEvent(ctl).send(1)
            elif cause == 'calc-error':
                edzed.ExtEvent(trig).send('boom')
                return asyncio.ensure_future(_after_idle(sim.loop, circuit))
            elif cause == 'task-error':
                return asyncio.ensure_future(_after_time(sim.loop, circuit, 12.5))
            return asyncio.ensure_future(stop(circuit)) if cause != 'cancel-task' else task

        async def driver():
            if phase == 'built':
                fire_all('circuit built, not started')
            if phase == 'finalized':
                circuit.finalize()
                fire_all('circuit finalized explicitly, not started')
            if phase == 'aborted-before-start':
                circuit.abort(Fault('abort before the start'))
                fire_all('abort() called, never started')
                return
            task = asyncio.create_task(circuit.run_forever())
            if phase == 'task-created':
                fire_all('task created, not yet running')
            await asyncio.sleep(0)
            if phase == 'first-yield':
                # the simulation task has started the blocks and yields for the first time: the
                # circuit is ready, no block has done any initialisation step yet
                if not circuit.is_ready():
                    raise RuntimeError('harness: circuit not ready at the first yield')
                fire_all('blocks started, initialisation not yet begun')
            if phase == 'start-failed':
                await sim.loop.idle()
                fire_all('after a failed start')
                await stop(circuit)
                return
            if phase == 'async-init':
                await asyncio.sleep(1)
                if circuit._init_done.is_set():
                    raise RuntimeError('harness: init already done')
                fire_all('during asynchronous initialisation')
            await circuit.wait_init()
            if phase == 'running':
                fire_all('running')
            if phase == 'reset':
                await stop(circuit)
                edzed.reset_circuit()
                fire_all('after reset_circuit()')
                return
            if phase == 'abort-called':
                if cause == 'shutdown':
                    # the real coroutine, started as a task; the sender is the next task to run
                    # in the same loop iteration
                    stopper = asyncio.create_task(stop(circuit))

                    async def send_after():
                        fire_all('in the loop iteration in which shutdown() was called')
                    await asyncio.create_task(send_after())
                    await stopper
                    return
                if cause == 'never':
                    pass
                elif cause == 'cancel-task':
                    circuit.abort(asyncio.CancelledError('x'))
                else:
                    terminate(task)
                fire_all(f'right after the stop request ({cause})')
                await stop(circuit)
                return
            if phase in ('stopping-sync', 'stopping-async', 'finished'):
                fut = terminate(task)
                if phase == 'stopping-async':
                    for _ in range(40):         # some causes take effect later (failing task)
                        if circuit.error is not None:
                            break
                        await asyncio.sleep(0.5)
                    await asyncio.sleep(2)
                    if task.done():
                        raise RuntimeError('harness: clean-up already over')
                    fire_all(f'during asynchronous clean-up after {cause}')
                try:
                    await fut
                except BaseException:   # pylint: disable=broad-except
                    pass
                if phase == 'finished':
                    fire_all(f'after the simulation finished ({cause})')
                return
            await stop(circuit)
        try:
            sim.run(driver())
        except Exception as err:    # pylint: disable=broad-except
            viol.append(('driver-died', repr(err)))
        if not state['done']:
            viol.append(('driver-died', f'phase {phase} never reached'))
    s0 = acc.state(('phase', phase, cause))
    acc.transition(s0, 'send-all', acc.state(('phase', phase, cause, 'done', len(viol) == 0)))
    return viol


async def _after_idle(loop, circuit):
    await loop.idle()
    return await stop(circuit)


async def _after_time(loop, circuit, t):
    await loop.sleep_until_us(int(t * 1_000_000) + 1)
    await loop.idle()
    return await stop(circuit)


def run_after_failure(cfg, acc):
    cause = cfg['cause']
    viol = []
    seen = []
    failed = {'at': None}
    with Sim() as sim:
        circuit = sim.circuit
        loop = sim.loop
        probe = lblock_class()('probe', log=[], cfg={
            'init_regular': ('set', 0),
            'on_event': lambda blk, et, data: seen.append((loop.iterations, et, dict(data)))})
        trig = edzed.Input('trig', initdef=0)

        clock = [0]     # orders the failure and the send attempts within one loop iteration too

        def tick():
            clock[0] += 1
            return clock[0]

        def mark():
            if failed['at'] is None:
                failed['at'] = tick()

        def calc(a):
            if a == 'boom':
                mark()
                raise Fault('calc_output')
            return a
        edzed.FuncBlock('fb', func=calc).connect(trig)
        if cause == 'unstable':
            edzed.FuncBlock('osc', func=lambda t, o: (not o) if t == 'osc' else False).connect(trig, 'osc')

        def bad_handler(blk, et, data):
            mark()
            if cause == 'abort-in-handler':
                circuit.abort(Fault('abort'))
                return 'aborted'
            raise Fault('handler')
        hblk = lblock_class()('hblk', log=[], cfg={'init_regular': ('set', 0), 'on_event': bad_handler})

        async def boom():
            await asyncio.sleep(3)
            mark()
            raise Fault('task')
        mt = lblock_class(maintask=True)('mt', log=[], cfg={'init_regular': ('set', 0),
                                                            'maintask': (None, None)}, stop_timeout=5)
        if cause == 'task-error':
            mt._maintask = boom
        sender = edzed.ExtEvent(probe, 'ping')
        results = []

        async def driver():
            task = asyncio.create_task(circuit.run_forever())
            await circuit.wait_init()
            if cause == 'calc-error':
                edzed.ExtEvent(trig).send('boom')
            elif cause == 'unstable':
                edzed.ExtEvent(trig).send('osc')
            elif cause in ('handler-error', 'abort-in-handler'):
                try:
                    edzed.ExtEvent(hblk, 'x').send()
                except Fault:
                    pass
            for _k in range(40 if cause != 'task-error' else 400):
                it = tick()
                try:
                    sender.send(_k)
                    results.append((it, 'delivered'))
                except edzed.EdzedInvalidState:
                    results.append((it, 'refused'))
                if cause == 'task-error':
                    await asyncio.sleep(0.01)
                else:
                    await asyncio.sleep(0)
            await stop(circuit)
            results.append((loop.iterations, 'end', task.done()))
        sim.run(driver())
        err = circuit.error
    acc.execs += 1
    acc.outcome(('after-failure', cause, tuple(r[1] for r in results)))
    acc.state(('after-failure', cause))
    if err is None or isinstance(err, asyncio.CancelledError):
        if cause == 'unstable':
            # the instability is detected inside the simulation task as well
            viol.append(('harness-no-failure', f"{cause}: no error happened ({err!r})"))
        elif cause != 'unstable':
            viol.append(('harness-no-failure', f"{cause}: no error happened ({err!r})"))
        return viol
    if cause == 'unstable':
        # no harness mark inside the simulator: the failure instant is the first refusal at
        # the latest; require that refusals are never followed by a delivery
        first_ref = next((i for i, r in enumerate(results) if r[1] == 'refused'), None)
        if first_ref is None or any(r[1] == 'delivered' for r in results[first_ref:]):
            viol.append(('delivered-after-failure', f"{cause}: {results[:12]}"))
        # and the simulator must have failed within a couple of iterations of the trigger
        if first_ref is None or first_ref > 2:
            viol.append(('delivered-after-failure',
                         f"{cause}: deliveries continued for {first_ref} iterations after the "
                         f"network became unstable: {results[:8]}"))
        return viol
    bad = [r for r in results if r[1] == 'delivered' and failed['at'] is not None and r[0] > failed['at']]
    if bad:
        viol.append(('delivered-after-failure',
                     f"{cause}: the failure happened at step {failed['at']}, but external events were "
                     f"still delivered at the later steps {[r[0] for r in bad]} "
                     f"(error {err!r})"))
    return viol


# ------------------------------------------------------------------ name space

CLASS_NAMES = ['Foo', 'ext', 'ext_', 'ext_Foo', 'Ext_foo', 'EXT_', '_ext', '__ext', 'ext__', 'ext_1']
EXPLICIT = ['a', 'ext', 'ext_', 'ext_x', 'Ext_', 'x_ext_', '_ext_x', '_ext_', '_x', '_', '__ext_x',
            # blanks around a reserved-looking name (no normalisation may turn it into a reserved one)
            ' _ext_x', '\t_ext_', ' _x', '_ext_x ', '\n_ext_y', '\u00a0_ext_z']


def run_names(cfg, acc):
    viol = []
    part = cfg['part']
    cases = []
    for cn in CLASS_NAMES:
        for base in ('input', 'func', 'fsm', 'repeat'):
            cases.append(('auto', cn, base))
    for nm in EXPLICIT:
        for base in ('input', 'func', 'fsm', 'repeat'):
            cases.append(('explicit', nm, base))
    cases += [('library', 'not', ''), ('library', 'autorepeat', ''), ('library', 'ctrl', '')]
    for idx, (how, nm, base) in enumerate(cases):
        if idx % 4 != part:
            continue
        seen = []
        with Sim() as sim:
            dst = lblock_class()('dst', log=[], cfg={
                'init_regular': ('set', 0),
                'on_event': lambda blk, et, data: seen.append((et, dict(data)))})
            created = []
            refused = None
            try:
                clsname = nm if how == 'auto' else 'Foo'
                if how != 'library':
                    cls = {
                        'input': lambda: type(clsname, (edzed.Input,), {}),
                        'func': lambda: type(clsname, (edzed.FuncBlock,), {}),
                        'fsm': lambda: type(clsname, (edzed.FSM,), {
                            'STATES': ['a', 'b'], 'EVENTS': [['go', None, 'b']]}),
                        'repeat': lambda: type(clsname, (edzed.Repeat,), {}),
                    }[base]()
                for rep in range(2):    # two instances: automatic names are numbered
                    name = None if how == 'auto' else nm
                    if (how == 'explicit' and rep == 1) or how == 'library':
                        break
                    ev = edzed.Event(dst, 'ev')
                    if base == 'input':
                        created.append(cls(name, initdef=rep, on_output=ev,
                                           on_every_output=edzed.Event(dst, 'ev2')))
                    elif base == 'func':
                        created.append(cls(name, func=lambda: 5, on_output=ev))
                    elif base == 'fsm':
                        created.append(cls(name, on_enter_a=ev, on_exit_a=edzed.Event(dst, 'ev3'),
                                           on_notrans=edzed.Event(dst, 'ev4')))
                    else:
                        created.append(cls(name, dest=dst, etype='ev', interval=1000))
                if how == 'library':
                    src = edzed.Input('src', initdef=1)
                    if nm == 'not':
                        edzed.FuncBlock('f', func=lambda a: a).connect('_not_src')
                        # the automatic inverter has no events; give one to a second inverter
                        created.append(edzed.Not('n2', on_output=edzed.Event(dst, 'ev')).connect(src))
                    elif nm == 'autorepeat':
                        src2 = edzed.Input('src2', initdef=1, on_output=edzed.Event(dst, 'ev', repeat=1000))
                        created.append(src2)
                    else:
                        edzed.Input('src3', initdef=1, on_output=edzed.Event('_ctrl', 'nothing'))
            except (ValueError, TypeError) as err:
                refused = err
            acc.execs += 1
            if refused is not None:
                acc.outcome((how, nm, base, 'refused'))
                if how == 'auto' or (how == 'explicit' and not nm.startswith('_')):
                    if how == 'explicit':
                        viol.append(('valid-name-refused', f"{base} named {nm!r}: {refused!r}"))
                    else:
                        acc.count('auto_name_refused')
                continue
            if how == 'explicit' and nm.startswith('_'):
                viol.append(('reserved-name-accepted', f"{base} block named {nm!r} was accepted"))

            async def driver():
                task = asyncio.create_task(sim.circuit.run_forever())
                try:
                    await sim.circuit.wait_init()
                except Exception as err:    # pylint: disable=broad-except
                    if how != 'library':
                        viol.append(('start-failed', f"{how} {nm} {base}: {err!r}"))
                    await stop(sim.circuit)
                    return
                for blk in created:
                    if isinstance(blk, edzed.FSM):
                        edzed.ExtEvent(blk, 'go').send()
                        edzed.ExtEvent(blk, 'go').send()
                    elif isinstance(blk, edzed.Repeat):
                        edzed.ExtEvent(blk, 'ev').send(3)
                    elif isinstance(blk, edzed.SBlock):
                        edzed.ExtEvent(blk, 'put').send(77)
                await sim.loop.idle()
                await stop(sim.circuit)
                del task
            sim.run(driver())
            names = sorted(b.name for b in sim.circuit.getblocks())
            for b in sim.circuit.getblocks():
                if b.name.startswith('_ext_'):
                    viol.append(('forgeable-block-name',
                                 f"{how} name for class {nm!r} ({base}): block is called {b.name!r}"))
            internal = [d for (_et, d) in seen]
            acc.outcome((how, nm, base, tuple(sorted({str(d.get('source')) for d in internal}))))
            if how != 'library' and not internal:
                viol.append(('harness-no-traffic', f"{how} {nm} {base}: no internal event seen; blocks {names}"))
            for d in internal:
                src = d.get('source')
                if isinstance(src, str) and src.startswith('_ext_') and d.get('orig_source') is None:
                    viol.append(('internal-event-marked-external',
                                 f"{how} name for class {nm!r} ({base}): internal event carries "
                                 f"source {src!r}"))
                if isinstance(d.get('orig_source'), str) and str(d.get('source')).startswith('_ext_'):
                    viol.append(('internal-event-marked-external',
                                 f"{how} {nm!r} ({base}): Repeat forwards with source {src!r}"))
        acc.state(('names', how, nm, base))
    return viol


def run_ctor(cfg, acc):
    viol = []
    with Sim():
        inp = edzed.Input('inp', initdef=0)
        fb = edzed.FuncBlock('fb', func=lambda: 1)
        bad = [((5,), {}), ((None,), {}), (('nosuch',), {}), ((fb,), {}), (('fb',), {}),
               ((inp, ''), {}), ((inp, 5), {}), ((inp, None), {}), ((inp,), {'source': 5}),
               ((inp,), {'source': None}), ((inp, edzed.EventCond('a', 'b')), {})]
        for args, kwargs in bad:
            acc.execs += 1
            try:
                ev = edzed.ExtEvent(*args, **kwargs)
            except (TypeError, KeyError, ValueError):
                acc.outcome(('ctor', repr(args), 'refused'))
                continue
            viol.append(('bad-extevent-accepted', f"ExtEvent(*{args!r}, **{kwargs!r}) -> {ev}"))
        ok = edzed.ExtEvent('inp')
        if ok.dest is not inp or ok.etype != 'put':
            viol.append(('extevent-attrs', f"dest {ok.dest!r} etype {ok.etype!r}"))
    acc.state(('ctor',))
    return viol


def run_config(cfg):
    acc = Acc()
    fn = {'phase': run_phase, 'names': run_names, 'ctor': run_ctor,
          'after-failure': run_after_failure}[cfg['kind']]
    seen_sig = {}
    for sig, msg in fn(cfg, acc):
        seen_sig[sig] = seen_sig.get(sig, 0) + 1
        if seen_sig[sig] <= 2:
            acc.violation(f"C14:{sig}", msg, cfg=cfg)
    acc.sample({'cfg': cfg, 'shapes': len(SHAPES), 'destinations': KINDS}, limit=2)
    return acc

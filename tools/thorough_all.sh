#!/bin/bash
# Run every thorough tier once (for timing / silence); honours VERIF_REPO and VERIF_JOBS.
for p in ${@:-C02 C04 C06 C12 C17 C18 C20 C13 C16 C19 C14 C15 C09 C08 C05 C07 C11 C10 C01 C03}; do
  s=$(date +%s)
  out=$(timeout ${TMO:-5400} /venv/bin/python -m vt $p --tier thorough 2>&1); rc=$?
  e=$(date +%s)
  echo "$p rc=$rc secs=$((e-s)) $(echo "$out" | grep -E "^\[$p" | sed -e 's/counters=.*wall=/wall=/')"
  echo "$out" | grep -E "VIOLATION|HARNESS" | head -3
  echo "$out" | grep -A1 VIOLATION | grep -v "VIOLATION\|^--" | head -3
done

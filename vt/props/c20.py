"""
C20 - Counter arithmetic is exact and stays within the modulo range.

Explicit-state BFS over the real Counter: canonical state = the block's complete simple
instance state (output, modulo, initdef, ...); every alphabet symbol in every state.
With a modulus the graph closes (=> all sequences); without one the depth bound is
reported.  Oracle: a Python accumulator with % after each step.
"""
from __future__ import annotations

import asyncio

import edzed

from ..explore import Acc
from ..harness import Sim, stop
from ..stategraph import bfs, fingerprint

PROPERTY = 'C20'
LEVEL = 'model_checking'
LEVEL_TEXT = ("Explicit-state search over the real Counter block: every event of the alphabet "
              "applied in every reachable canonical state (complete instance state); with a "
              "modulus the state graph closes, so the result holds for event sequences of any "
              "length over the alphabet; without one all sequences up to the depth bound.")
LEVEL_NOTE = ("Alphabet: inc/dec with amounts {default,0,2,-3,10[,0.5]}, put {0,5,-1,12}, put "
              "without value, reset, unknown event; modulo {None,1,2,7,10,2.5}; initdef in/out of "
              "range/negative; restore from storage. Canonical state = all simple instance "
              "attributes (sound unless state hides in nested containers).")
TECHNIQUE = "explicit-state model checking of the implementation (closed state graph) vs. reference accumulator"
RULE = ("BFS: state = event history replayed on a fresh circuit, canonical form = simple instance "
        "attributes of the Counter; every alphabet symbol in every state; outcome = "
        "(config, state, symbol, result); distinct = distinct such tuples")
ASSUMPTIONS = ["float arithmetic for modulo 2.5 uses values exactly representable in binary"]

MODS = [None, 1, 2, 7, 10, 2.5]
BIG = 2 ** 53 + 1       # not representable as a float: catches silent float arithmetic
BIG2 = 2 ** 60 + 3
INITS = ['default', 3, 12, -4]


def configs(tier):
    out = []
    for mod in MODS:
        for init in INITS:
            for via in ('ext', 'int'):
                out.append(dict(kind='graph', mod=mod, init=init, via=via, stored=None,
                                depth=(6 if tier == 'quick' else 8) if mod is None else None))
            # the same search started from a state restored from the storage (differential:
            # a restored counter must behave like one that reached the value by events)
            for stored in (5, -13):
                out.append(dict(kind='graph', mod=mod, init=init, via='ext', stored=stored,
                                depth=(3 if tier == 'quick' else 5) if mod is None else None))
        for stored in (0, 5, 12, -1, -13, 2.5):
            out.append(dict(kind='restore', mod=mod, stored=stored))
    out.append(dict(kind='ctor'))
    return out


def alphabet(mod):
    amounts = [None, 0, 2, -3, 10]
    if mod == 2.5:
        amounts.append(0.5)
    al = [(op, a) for op in ('inc', 'dec') for a in amounts]
    al += [('put', v) for v in (0, 5, -1, 12, BIG, -BIG2)]
    al += [('put', 'novalue'), ('reset', None), ('bogus', None)]
    return al


def same(x, y):
    """Exact arithmetic: same value and same numeric type as the reference computation."""
    return type(x) is type(y) and x == y


def ref_step(val, sym, mod, initdef):
    """-> (new value, expected return or exception class)"""
    op, a = sym
    red = (lambda x: x) if mod is None else (lambda x: x % mod)
    if op == 'inc':
        new = red(val + (1 if a is None else a))
    elif op == 'dec':
        new = red(val - (1 if a is None else a))
    elif op == 'put':
        if a == 'novalue':
            return val, TypeError
        new = red(a)
    elif op == 'reset':
        new = red(initdef)
    else:
        return val, edzed.EdzedUnknownEvent
    return new, new


def run_history(cfg, hist):
    """Replay hist on a fresh circuit. Returns (canon, info)."""
    mod, init, via = cfg['mod'], cfg['init'], cfg['via']
    kw = {}
    if init != 'default':
        kw['initdef'] = init
    initdef = 0 if init == 'default' else init
    info = {'steps': [], 'viol': []}
    with Sim() as sim:
        if cfg.get('stored') is not None:
            cnt = edzed.Counter('cnt', modulo=mod, persistent=True, **kw)
            sim.circuit.set_persistent_data({cnt.key: cfg['stored'], 'edzed-stop-time': 0.0})
        else:
            cnt = edzed.Counter('cnt', modulo=mod, **kw)
        async def driver():
            task = asyncio.create_task(sim.circuit.run_forever())
            await sim.circuit.wait_init()
            red = (lambda x: x) if mod is None else (lambda x: x % mod)
            val = red(initdef if cfg.get('stored') is None else cfg['stored'])
            if not same(cnt.output, val):
                info['viol'].append(('initial-value',
                                     f"output {cnt.output!r} after init, expected {val!r}"))
            for sym in hist:
                op, a = sym
                data = {}
                if op in ('inc', 'dec') and a is not None:
                    data['amount'] = a
                if op == 'put' and a != 'novalue':
                    data['value'] = a
                new, exp = ref_step(val, sym, mod, initdef)
                try:
                    if via == 'int':
                        ret = cnt.event(op, source='x', trigger='t', **data)
                    else:
                        ret = edzed.ExtEvent(cnt, op).send(**data)
                except Exception as err:    # pylint: disable=broad-except
                    ret = type(err)
                info['steps'].append((sym, ret, cnt.output))
                if isinstance(exp, type):
                    if ret is not exp and not (isinstance(ret, type) and issubclass(ret, exp)):
                        info['viol'].append((f'error-reporting:{op}',
                                             f"{sym}: got {ret!r}, expected {exp.__name__} to the caller"))
                elif isinstance(ret, type) or not same(ret, exp):
                    info['viol'].append((f'return-value:{op}',
                                         f"{sym} in state {val!r}: returned {ret!r}, expected {exp!r}"))
                if not same(cnt.output, new):
                    info['viol'].append((f'arithmetic:{op}',
                                         f"{sym} in state {val!r} (mod {mod}): output {cnt.output!r}, expected {new!r}"))
                if mod is not None and not 0 <= cnt.output < mod:
                    info['viol'].append(('out-of-range',
                                         f"output {cnt.output!r} outside [0,{mod})"))
                await asyncio.sleep(0)
                if not sim.circuit.is_ready() or sim.circuit.error is not None:
                    info['viol'].append((f'simulation-stopped:{op}',
                                         f"{sym}: circuit error {sim.circuit.error!r}"))
                    info['dead'] = True
                    break
                val = new
            info['canon'] = (cfg['mod'], cfg['init'], cfg['via'], cfg.get('stored') is not None,
                             fingerprint(cnt, skip=('comment', 'name', 'key', 'debug')))
            await stop(sim.circuit)
            del task
        sim.run(driver())
    return (None if info.get('dead') else info['canon']), info


def run_config(cfg):
    acc = Acc()
    if cfg['kind'] == 'graph':
        def on_step(hist, hc, sym, canon, info):
            for sig, msg in info['viol']:
                acc.violation(f"C20:{sig}", msg, cfg=cfg, choices=None,
                              detail={'history': list(hist), 'steps': info['steps']})
            acc.outcome((cfg['mod'], cfg['init'], cfg['via'], hc, sym, repr(info['steps'][-1:])))
        c0, info0 = run_history(cfg, ())
        for sig, msg in info0['viol']:
            acc.violation(f"C20:{sig}", msg, cfg=cfg, detail={'history': []})
        acc.execs += 1
        res = bfs(lambda h: run_history(cfg, h), alphabet(cfg['mod']), acc,
                  max_depth=cfg['depth'], on_step=on_step)
        acc.count('graphs_closed' if res['closed'] else 'graphs_depth_bounded')
        if cfg['mod'] is not None and not res['closed']:
            acc.violation('C20:graph-did-not-close', f"modulo {cfg['mod']}: state graph open",
                          cfg=cfg)
        acc.sample({'cfg': cfg, 'result': res}, limit=4)
    elif cfg['kind'] == 'restore':
        mod, stored = cfg['mod'], cfg['stored']
        with Sim() as sim:
            cnt = edzed.Counter('cnt', modulo=mod, persistent=True, initdef=1)
            sim.circuit.set_persistent_data({cnt.key: stored, 'edzed-stop-time': 0.0})
            out = {}

            async def driver():
                task = asyncio.create_task(sim.circuit.run_forever())
                await sim.circuit.wait_init()
                out['v'] = cnt.output
                await stop(sim.circuit)
                del task
            sim.run(driver())
        acc.execs += 1
        exp = stored if mod is None else stored % mod
        if not same(out['v'], exp):
            acc.violation('C20:restore-not-reduced',
                          f"restored {stored!r} with modulo {mod}: output {out['v']!r}, expected {exp!r}",
                          cfg=cfg)
        acc.state(('restore', mod, stored, out['v']))
        acc.outcome(('restore', mod, stored, out['v']))
        if out['v'] != exp:
            acc.violation('C20:restore-not-reduced',
                          f"restored {stored!r} with modulo {mod}: output {out['v']!r}, expected {exp!r}",
                          cfg=cfg)
    else:
        with Sim():
            for i, z in enumerate((0, 0.0, False)):
                acc.execs += 1
                try:
                    edzed.Counter(f'z{i}', modulo=z)
                except ValueError:
                    acc.outcome(('ctor', repr(z), 'ValueError'))
                except Exception as err:    # pylint: disable=broad-except
                    acc.violation('C20:modulo-zero-wrong-error', f"modulo={z!r}: {err!r}", cfg=cfg)
                else:
                    acc.violation('C20:modulo-zero-accepted', f"modulo={z!r} accepted", cfg=cfg)
            acc.state(('ctor',))
        # "refused" means that nothing of the block is left behind: the application catches the
        # error and goes on with the same circuit, which starts and counts as usual
        for z in (0, 0.0, False):
            for order in ('before', 'after'):
                acc.execs += 1
                with Sim() as sim:
                    res = {}

                    def refused():
                        try:
                            edzed.Counter('zero', modulo=z, initdef=3)
                        except Exception:   # pylint: disable=broad-except
                            pass
                    if order == 'before':
                        refused()
                    good = edzed.Counter('good', modulo=5, initdef=7)
                    if order == 'after':
                        refused()
                    res['names'] = sorted(b.name for b in sim.circuit.getblocks())

                    async def driver():
                        task = asyncio.create_task(sim.circuit.run_forever())
                        try:
                            await sim.circuit.wait_init()
                            res['out0'] = good.output
                            res['inc'] = edzed.ExtEvent(good, 'inc').send(amount=4)
                        except Exception as err:    # pylint: disable=broad-except
                            res['err'] = repr(err)
                        await stop(sim.circuit)
                        del task
                    sim.run(driver())
                acc.outcome(('ctor-leftover', repr(z), order, repr(res)))
                acc.state(('ctor-leftover', 'err' in res))
                if res['names'] != ['good'] or 'err' in res or (res.get('out0'), res.get('inc')) != (2, 1):
                    acc.violation('C20:modulo-zero-not-refused',
                                  f"Counter('zero', modulo={z!r}) raised, the circuit was used further "
                                  f"(refused counter created {order} a valid one): blocks {res['names']}, "
                                  f"start/count result {res}", cfg=cfg)
    return acc

"""
Shared helpers for the network checks (C01, C10, C11, C15): block-set order seam (E3),
reference evaluation of combinational networks, burst driver.

Block-set order: edzed keeps blocks in Python sets (eval_set, oconnections, iconnections,
started_blocks).  With the default identity hash their iteration order changes from run to
run.  Block.__hash__ is replaced (in the harness process only) by a harness-assigned rank:
small distinct integers make a set iterate in ascending rank order, so enumerating rank
permutations enumerates the iteration orders.
"""
from __future__ import annotations

import itertools

import edzed
from edzed import block as _block

_auto = itertools.count(64)


def _rank_hash(self):
    r = self.__dict__.get('_vt_rank')
    if r is None:
        r = self.__dict__['_vt_rank'] = next(_auto)
    return r


def install_rank_hash(auto_base=64):
    """
    Idempotent; call before any block is created in an execution.  auto_base = first rank given to
    blocks that get no explicit rank (e.g. inverters created by the library during finalisation).
    """
    global _auto    # pylint: disable=global-statement
    if _block.Block.__hash__ is not _rank_hash:
        _block.Block.__hash__ = _rank_hash
    _auto = itertools.count(auto_base)


def set_ranks(blocks, perm):
    """blocks[i] gets rank perm[i] (ranks < 8 iterate in ascending order in small sets)."""
    for blk, r in zip(blocks, perm):
        blk.__dict__['_vt_rank'] = r


def same(x, y):
    """Same value and same type (True != 1 for our purposes)."""
    return type(x) is type(y) and x == y


def xor_fn(vals):
    return bool(sum(1 for v in vals if v) % 2)


def all_bursts(domains):
    """
    Walk through every transition of the complete graph on the source-value vectors:
    yields (from_vector, burst) where burst = ordered list of (source index, new value);
    every non-empty subset of sources changed in one burst, in each order; repositioning
    moves are bursts as well.
    """
    vectors = list(itertools.product(*domains))
    plan = []
    cur = vectors[0]
    for u in vectors:
        for v in vectors:
            if v == u:
                continue
            diff = [i for i in range(len(u)) if u[i] != v[i]]
            for order in itertools.permutations(diff):
                if cur != u:
                    d0 = [i for i in range(len(u)) if cur[i] != u[i]]
                    plan.append((cur, [(i, u[i]) for i in d0]))
                    cur = u
                plan.append((u, [(i, v[i]) for i in order]))
                cur = v
    return vectors[0], plan

"""Model-checking harness for edzed (see /verif/DESIGN.md)."""

"""
Virtual wall clock tied to the virtual loop.

install(loop, base_unix_us) replaces, inside this process only:
    time.time                 -> base + loop time (+ jump offset)
and, on request (cron=True), in edzed.blocklib.cron the module attributes
    dt   -> shim whose datetime.now() reads (and advances) the virtual clock
    time -> shim whose sleep() advances the virtual clock
uninstall() restores everything.  Harness timing uses time.perf_counter (left alone).
"""
from __future__ import annotations

import datetime as _dt
import time as _time
import types

_real_time = _time.time
_real_sleep = _time.sleep
_state = {'loop': None, 'base_us': 0, 'jump_us': 0, 'read_lat_us': 1, 'reads': 0, 'tz_us': 0}


def wall_us() -> int:
    return _state['base_us'] + _state['loop'].now_us + _state['jump_us']


def _vtime() -> float:
    if _state['loop'] is None:
        return _real_time()
    return wall_us() / 1_000_000


def jump(delta_us: int) -> None:
    """Step the system clock (not the loop's monotonic clock)."""
    _state['jump_us'] += int(delta_us)


_EPOCH = _dt.datetime(1970, 1, 1)


def wall_datetime() -> _dt.datetime:
    return _EPOCH + _dt.timedelta(microseconds=wall_us())


class _VDateTime(_dt.datetime):
    @classmethod
    def now(cls, tz=None):
        # every clock read takes time: otherwise correct code that re-reads the clock
        # until it moves would livelock in zero virtual time (harness artefact)
        _state['reads'] += 1
        _state['loop'].advance_us(_state['read_lat_us'])
        now = wall_datetime()
        if tz is not None:
            now = now.replace(tzinfo=tz)    # (only UTC is ever asked for)
        else:
            now += _dt.timedelta(microseconds=_state['tz_us'])      # local time of the virtual zone
        return now


def _vsleep(seconds: float) -> None:
    if seconds < 0:
        raise ValueError("sleep length must be non-negative")      # as the real time.sleep()
    _state['loop'].advance_us(max(1, round(seconds * 1_000_000)))


_dt_shim = types.SimpleNamespace(
    datetime=_VDateTime, time=_dt.time, date=_dt.date, timedelta=_dt.timedelta,
    timezone=_dt.timezone)
_time_shim = types.SimpleNamespace(sleep=_vsleep, time=_vtime)

_saved = {}


def install(loop, base_unix_us: int = 1_000_000_000_000, *, cron: bool = False,
            read_lat_us: int = 1, tz_hours: int = 0) -> None:
    """tz_hours: offset of the virtual local zone from UTC (the process zone is set to match)."""
    _state.update(loop=loop, base_us=int(base_unix_us), jump_us=0,
                  read_lat_us=read_lat_us, reads=0, tz_us=tz_hours * 3600 * 1_000_000)
    _time.time = _vtime
    if tz_hours or 'TZ' in _saved:
        import os
        _saved.setdefault('TZ', os.environ.get('TZ'))
        # POSIX notation: 'VTZ-14' is 14 hours east of Greenwich
        os.environ['TZ'] = 'UTC' if not tz_hours else f"VTZ{-tz_hours:+d}"
        _time.tzset()
    if cron:
        import edzed.blocklib.cron as cronmod
        if 'cron' not in _saved:
            _saved['cron'] = (cronmod.dt, cronmod.time)
        cronmod.dt = _dt_shim
        cronmod.time = _time_shim


def set_loop(loop) -> None:
    _state['loop'] = loop


def uninstall() -> None:
    _time.time = _real_time
    _state['loop'] = None
    _state['tz_us'] = 0
    if 'TZ' in _saved:
        import os
        old = _saved.pop('TZ')
        if old is None:
            os.environ.pop('TZ', None)
        else:
            os.environ['TZ'] = old
        _time.tzset()
    if 'cron' in _saved:
        import edzed.blocklib.cron as cronmod
        cronmod.dt, cronmod.time = _saved.pop('cron')

"""
Generic check runner: enumerates a property module's configurations over a pool of
forked workers, merges coverage, triages violations against known_findings.json,
writes replay files and the evidence file, prints the interface lines.

Property module interface (vt/props/cXX.py):
    PROPERTY = 'C18'; LEVEL = 'model_checking'; RULE = '...'; ASSUMPTIONS = [...]
    def configs(tier) -> list of picklable configs   (complete bounded space for the tier)
    def run_config(cfg) -> explore.Acc               (explores every schedule of one config)
    optional: EXHAUSTIVE = True/False, describe(cfg) -> jsonable, selftest() -> None
Exit codes: 0 held (KNOWN-FINDING lines allowed); 1 with VIOLATION line; 2 harness error.
"""
from __future__ import annotations

import gc
import importlib
import tempfile
import json
import multiprocessing as mp
import os
import sys
import time
import traceback

from .explore import Acc, HarnessError, jsonable, h64

VERIF = os.path.dirname(os.path.dirname(os.path.abspath(__file__)))
KNOWN_FILE = os.path.join(VERIF, 'known_findings.json')

_real_perf = time.perf_counter


def setup_repo_path():
    """Honour VERIF_REPO=<dir> for mutation demos (default: the editable install = /repo)."""
    repo = os.environ.get('VERIF_REPO')
    if repo:
        sys.path.insert(0, repo)


def load_module(pid: str):
    return importlib.import_module(f"vt.props.{pid.lower()}")


def _worker_init():
    gc.disable()
    import logging
    logging.getLogger('edzed').propagate = False
    logging.getLogger('asyncio').propagate = False
    if not logging.getLogger('edzed').handlers:
        logging.getLogger('edzed').addHandler(logging.NullHandler())
    logging.getLogger('asyncio').addHandler(logging.NullHandler())
    import warnings
    warnings.simplefilter('ignore')


def _run_chunk(args):
    pid, chunk = args
    mod = load_module(pid)
    acc = Acc()
    try:
        for cfg in chunk:
            a = mod.run_config(cfg)
            acc.merge(a)
            acc.configs += 1
        gc.collect()
        return ('ok', acc)
    except HarnessError as err:
        return ('harness', f"{err}\ncfg={cfg!r}\n{traceback.format_exc()}")
    except BaseException as err:    # pylint: disable=broad-except
        return ('harness', f"{type(err).__name__}: {err}\ncfg={cfg!r}\n{traceback.format_exc()}")


def load_known(pid):
    try:
        with open(KNOWN_FILE) as f:
            data = json.load(f)
    except FileNotFoundError:
        return {}
    return {e['signature']: e for e in data.get('findings', [])
            if e['property'] == pid and e.get('status') == 'known'}


def write_evidence(pid, mod, tier, seed, acc, wall, n_viol, extra=None):
    level = mod.LEVEL
    cov = {
        'evaluations': acc.execs,
        'distinct_nontrivial': len(acc.outcomes) + acc.distinct,
        'rule': mod.RULE,
        'samples': jsonable(acc.samples) or ['(none)'],
        'exhaustive': bool(getattr(mod, 'EXHAUSTIVE', True)) and not acc.caps,
        'configurations': acc.configs,
        'choice_points': acc.choice_points,
        'distinct_observation_logs': len(acc.outcomes),
        'caps_hit': acc.caps,
        'counters': acc.counters,
    }
    if level == 'model_checking':
        cov['states'] = max(1, len(acc.states))
        cov['transitions'] = max(1, len(acc.trans))
        cov['traces_validated_against_impl'] = acc.execs
    if extra:
        cov.update(extra)
    ev = {
        'property_id': pid, 'tier': tier, 'seed': seed, 'level': level,
        'coverage': cov, 'assumptions': list(mod.ASSUMPTIONS),
        'wall_s': round(wall, 2), 'violations': n_viol,
    }
    # a run against a scratch copy of the repository (VERIF_REPO, mutation demos) is no evidence
    # about /repo: its file goes to a scratch directory
    evdir = (os.path.join(tempfile.gettempdir(), 'vt-scratch-evidence')
             if os.environ.get('VERIF_REPO') else os.path.join(VERIF, 'evidence'))
    os.makedirs(evdir, exist_ok=True)
    path = os.path.join(evdir, f'{pid}.json')
    tmp = path + '.tmp'
    with open(tmp, 'w') as f:
        json.dump(ev, f, indent=1, default=repr)
    os.replace(tmp, path)
    return path


def write_replay(pid, viol):
    d = os.path.join(VERIF, 'replays', pid)
    os.makedirs(d, exist_ok=True)
    body = jsonable(dict(property=pid, **viol))
    name = f"{h64(json.dumps(body, sort_keys=True, default=repr)):016x}.json"
    path = os.path.join(d, name)
    with open(path, 'w') as f:
        json.dump(body, f, indent=1, default=repr)
    return path


def main(argv=None):
    import argparse
    ap = argparse.ArgumentParser(prog='python -m vt')
    ap.add_argument('property')
    ap.add_argument('--tier', default=os.environ.get('VERIF_TIER') or 'quick',
                    choices=['quick', 'thorough'])
    ap.add_argument('--replay')
    ap.add_argument('--jobs', type=int, default=int(os.environ.get('VERIF_JOBS', '0')) or None)
    ap.add_argument('--limit', type=int, help='debug: only the first N configs')
    args = ap.parse_args(argv)
    pid = args.property.upper()
    seed = int(os.environ.get('VERIF_SEED', '0') or 0)
    setup_repo_path()
    os.environ.setdefault('PYTHONHASHSEED', '0')
    t0 = _real_perf()
    mod = load_module(pid)

    if args.replay:
        return replay(pid, mod, args.replay)

    if hasattr(mod, 'selftest'):
        try:
            mod.selftest()
        except Exception as err:    # pylint: disable=broad-except
            print(f"HARNESS-ERROR property={pid} selftest failed: {err!r}", file=sys.stderr)
            traceback.print_exc()
            return 2

    cfgs = list(mod.configs(args.tier))
    if args.limit:
        cfgs = cfgs[:args.limit]
    if cfgs and seed:
        k = seed % len(cfgs)        # the seed only rotates enumeration order / partitioning
        cfgs = cfgs[k:] + cfgs[:k]
    jobs = args.jobs or min(16, os.cpu_count() or 1)
    nchunks = max(1, min(len(cfgs), jobs * 8))
    chunks = [cfgs[i::nchunks] for i in range(nchunks)]
    acc = Acc()
    harness_errors = []
    if jobs == 1 or len(cfgs) <= 1:
        _worker_init()
        results = map(_run_chunk, [(pid, c) for c in chunks])
    else:
        ctx = mp.get_context('fork')
        pool = ctx.Pool(jobs, initializer=_worker_init)
        results = pool.imap_unordered(_run_chunk, [(pid, c) for c in chunks])
    for status, payload in results:
        if status == 'ok':
            acc.merge(payload)
        else:
            harness_errors.append(payload)
    if jobs != 1 and len(cfgs) > 1:
        pool.close()
        pool.join()
    if harness_errors:
        print(f"HARNESS-ERROR property={pid}: {len(harness_errors)} chunk(s) failed",
              file=sys.stderr)
        print(harness_errors[0], file=sys.stderr)
        return 2

    # triage
    known = load_known(pid)
    new, seen_known = [], {}
    for v in acc.violations:
        if v['sig'] in known:
            seen_known.setdefault(v['sig'], v)
        else:
            new.append(v)
    for sig, v in sorted(seen_known.items()):
        print(f"KNOWN-FINDING: property={pid} {sig}: {known[sig].get('what', v['msg'])}")
    rc = 0
    reported = set()
    for v in new:
        if v['sig'] in reported:
            continue
        reported.add(v['sig'])
        # determinism: the same configuration must fail again, identically, before we report
        if v.get('cfg') is not None and not getattr(mod, 'NO_CONFIRM', False):
            again = [x for x in mod.run_config(v['cfg']).violations if x['sig'] == v['sig']]
            if not again:
                print(f"HARNESS-ERROR property={pid}: violation {v['sig']} did not reproduce",
                      file=sys.stderr)
                return 2
        path = write_replay(pid, v)
        print(f"VIOLATION property={pid} replay={path}")
        print(f"  {v['sig']}: {v['msg']}")
        rc = 1
    wall = _real_perf() - t0
    write_evidence(pid, mod, args.tier, seed, acc, wall, len(reported),
                   extra={'known_findings_seen': sorted(seen_known)})
    print(f"[{pid} {args.tier}] configs={acc.configs} execs={acc.execs} "
          f"states={len(acc.states)} trans={len(acc.trans)} outcomes={len(acc.outcomes) + acc.distinct} "
          f"choice_points={acc.choice_points} caps={acc.caps} counters={acc.counters} "
          f"wall={wall:.1f}s violations={len(reported)} known={len(seen_known)}")
    return rc


def replay(pid, mod, path):
    with open(path) as f:
        v = json.load(f)
    cfg = v.get('cfg')
    if hasattr(mod, 'cfg_from_json'):
        cfg = mod.cfg_from_json(cfg)
    _worker_init()
    acc = mod.run_config(cfg)
    hits = [x for x in acc.violations if x['sig'] == v['sig']]
    if hits:
        print(f"VIOLATION property={pid} replay={path}")
        print(f"  {hits[0]['sig']}: {hits[0]['msg']}")
        if hits[0].get('detail') is not None:
            print(json.dumps(jsonable(hits[0]['detail']), indent=1, default=repr))
        return 1
    print(f"replay of {path}: violation {v['sig']} not reproduced on this tree "
          f"({len(acc.violations)} other violation(s))")
    return 0

"""
C05 - after start-up every block has a valid output, taken from the documented sources.

Probe blocks assembled from the real add-ons get a per-block profile:
  persistent entry {absent, restorable, restore raises} x init_async {none, returns before the
  timeout, after it, raises, never returns, disabled by timeout 0, returns without a value} x
  init_regular {no-op, initialises, raises} x initdef {absent, present},
connected by every acyclic set of start-up events (output events of one block initialise
another), created in EVERY order, with an observer waiting in wait_init() from the beginning
and optional external events sent before the synchronous phase / during the asynchronous phase.
Further configurations: a combinational block whose first evaluation fails (raises / unstable)
with and without a block with asynchronous clean-up; ValuePoll and InitAsync timing grids.
"""
from __future__ import annotations

import asyncio
import itertools

import edzed

from ..explore import Acc
from ..harness import Sim, stop
from ..probes import lblock_class, Fault

PROPERTY = 'C05'
LEVEL = 'model_checking'
LEVEL_TEXT = ("Bounded exhaustive exploration of the real start-up code on the virtual loop: every "
              "per-block combination of initialisation sources (126 profiles) for one block, "
              "126 x 20 for two, 8^3 for three blocks x every acyclic set of start-up events x every "
              "creation order x external events at each start-up stage; call logs and the result "
              "of wait_init() are judged by the documented rules, and success/failure is compared "
              "across creation orders (differential oracle); plus first-evaluation failures and "
              "ValuePoll / InitAsync timing grids.")
LEVEL_NOTE = ("Start-up event graphs are acyclic (cyclic ones may legitimately end in the recursion "
              "guard of C11); event handlers copy the sender's value; durations are whole virtual "
              "seconds (timeout 2: async results at 1 = in time, 5 = too late).")
TECHNIQUE = ("explicit-state exploration of the implementation's start-up (profiles x event graphs "
             "x creation orders x timings) vs. documented-order reference + differential oracle")
RULE = ("a case = (block profiles, start-up event edges, creation order, external event stage); "
        "state = (profiles, edges); transition = creation order; outcome = (case, started/failed, "
        "outputs); distinct = distinct outcomes")
ASSUMPTIONS = [
    "reference from docs/blocks.rst 'Initialization rules' and docs/simulation.rst wait_init()",
]

PERSIST = ('none', 'ok', 'raise')
ASYNC = ('none', 'early', 'late', 'raise', 'never', 'disabled', 'noset', 'mid', 'never4', 'late4')
# name -> (delay, action value?, init_timeout, initialises: True / False / None = not specified)
ASYNC_SPEC = {
    'early': (1, True, 2, True), 'late': (5, True, 2, False), 'raise': (1, 'raise', 2, False),
    'never': (None, False, 2, False), 'disabled': (1, True, 0, False), 'noset': (1, False, 2, False),
    # finishes after its own timeout; accepted or not depending on whether the simulator is still
    # waiting for a block with a longer timeout (the docs bound only the total wait)
    'mid': (3, True, 2, None),
    'never4': (None, False, 4, False), 'late4': (3, True, 4, True),
}
REGULAR = ('noop', 'set', 'raise')
INITDEF = (False, True)
TIMEOUT = 2
ALL_PROFILES = [(p, a, r, i) for p in PERSIST for a in ASYNC for r in REGULAR for i in INITDEF]
SEL20 = [('none', 'none', 'noop', False), ('none', 'none', 'noop', True), ('none', 'none', 'set', False),
         ('ok', 'none', 'noop', False), ('raise', 'none', 'noop', True), ('none', 'early', 'noop', False),
         ('none', 'late', 'noop', False), ('none', 'late', 'noop', True), ('none', 'raise', 'noop', True),
         ('none', 'never', 'set', False), ('none', 'never', 'noop', False), ('ok', 'early', 'set', True),
         ('none', 'disabled', 'noop', False), ('none', 'noset', 'noop', True), ('none', 'none', 'raise', True),
         ('ok', 'late', 'noop', False), ('raise', 'early', 'noop', False), ('none', 'early', 'set', True),
         ('none', 'noset', 'noop', False), ('ok', 'none', 'raise', False),
         ('none', 'mid', 'noop', False), ('none', 'never4', 'noop', True), ('none', 'late4', 'noop', False),
         ('none', 'mid', 'noop', True)]
SEL8 = [SEL20[i] for i in (0, 1, 3, 5, 6, 10, 2, 14, 20, 21)]


class SpecialEv(edzed.EventType):
    """An application-defined event type (not a string); the probe blocks handle any type."""


def dags(n):
    pairs = [(i, j) for i in range(n) for j in range(n) if i != j]
    out = []
    for mask in range(1 << len(pairs)):
        edges = tuple(p for b, p in enumerate(pairs) if mask >> b & 1)
        # acyclic?
        indeg = {i: 0 for i in range(n)}
        for _a, b in edges:
            indeg[b] += 1
        left, es = set(range(n)), list(edges)
        while True:
            free = [i for i in left if not any(b == i for _a, b in es)]
            if not free:
                break
            for i in free:
                left.discard(i)
                es = [e for e in es if e[0] != i]
        if not left:
            out.append(edges)
    return out


def configs(tier):
    out = []
    for prof in ALL_PROFILES:
        for ext in (None, ('pre', 0), ('async', 0)):
            out.append(dict(kind='profiles', profs=(prof,), edges=(), ext=ext))
    two = [(p0, p1) for p0 in ALL_PROFILES for p1 in SEL20]
    for (p0, p1) in two:
        for edges in dags(2):
            out.append(dict(kind='profiles', profs=(p0, p1), edges=edges, ext=None))
    for (p0, p1) in itertools.product(SEL20, repeat=2):
        for edges in dags(2):
            for ext in (('pre', 0), ('pre', 1), ('async', 0), ('async', 1)):
                out.append(dict(kind='profiles', profs=(p0, p1), edges=edges, ext=ext))
    # saved state x time stamp of the storage x expiration: the state is the first source unless it
    # has expired; without a valid time stamp the expiration cannot be checked (state is used)
    for prof in [p for p in ALL_PROFILES if p[0] == 'ok' and p[1] in ('none', 'early') and p[2] != 'raise']:
        for ts in ('ok', 'missing', 'bad-type', 'future'):
            for exp in (None, 1e9, 10, 0):
                out.append(dict(kind='profiles', profs=(prof, ('none', 'none', 'noop', True)),
                                edges=(), ext=None, ts=ts, exp=exp))
    # start-up events carrying a special (non-string) event type: early initialisation of the
    # destination must not depend on the kind of the event type
    for (p0, p1) in itertools.product(SEL20, repeat=2):
        for edges in dags(2):
            if edges:
                out.append(dict(kind='profiles', profs=(p0, p1), edges=edges, ext=None, etype='special'))
    # start-up events that resolve to "no event" (conditional events): they must have no effect
    # at all - the reference sees no edges ('wires' are the events really configured)
    for (p0, p1) in itertools.product(SEL20, repeat=2):
        for edges in dags(2):
            if edges:
                out.append(dict(kind='profiles', profs=(p0, p1), edges=(), wires=edges, ext=None,
                                etype='condnone'))
    sel3 = SEL8 if tier == 'quick' else SEL20[:12]
    d3 = dags(3)
    for profs in itertools.product(sel3, repeat=3):
        for edges in d3:
            if tier == 'quick' and len(edges) > 2:
                continue
            out.append(dict(kind='profiles', profs=profs, edges=edges, ext=None))
    if tier == 'thorough':
        for profs in itertools.product(SEL8[:5], repeat=4):
            for edges in dags(4)[::7]:
                out.append(dict(kind='profiles', profs=profs, edges=edges, ext=None))
    # a saved state that happens to be None / another falsy value is a saved state
    for val in ('NONE', 0, '', False, ()):
        for order in (0, 1):
            out.append(dict(kind='savedfalsy', val=val, order=order))
    for cb in ('ok', 'raise', 'unstable', 'undef'):
        for acleanup in (False, True):
            for slowinit in (False, True):
                out.append(dict(kind='firsteval', cb=cb, acleanup=acleanup, slowinit=slowinit))
    # circuits whose first evaluation takes tens .. thousands of block evaluations
    for n in ((30, 150, 600) if tier == 'quick' else (16, 17, 30, 100, 101, 150, 600, 2500)):
        for cb in ('ok', 'raise'):
            for shape in ('chain', 'fan'):
                out.append(dict(kind='firsteval', cb=cb, acleanup=False, slowinit=False, large=(shape, n)))
    for first in (0, 1, 2, 3, None):
        for initdef in (False, True):
            for asyncf in (False, True):
                out.append(dict(kind='valuepoll', first=first, initdef=initdef, asyncf=asyncf))
    for coro in ('ok1', 'late', 'raise', 'never'):
        for initdef in (False, True, 'zero', 'empty', 'none'):     # absent / 'ia-default' / 0 / '' / None
            for flt in (False, True):
                for racing in (False, True):
                    out.append(dict(kind='initasync', coro=coro, initdef=initdef, flt=flt, racing=racing))
    return out


# ------------------------------------------------------------------ profile runs

def saved_expired(cfg):
    """Is the saved state too old to be used? (docs/blocks.rst: expiration)"""
    exp, ts = cfg.get('exp'), cfg.get('ts', 'ok')
    if exp is None:
        return False
    if exp <= 0:
        return True
    if ts in ('missing', 'bad-type'):
        return False        # no valid time stamp: the expiration cannot be checked
    age = 1_000_000.0 - (999_000.0 if ts == 'ok' else 1_500_000.0)
    return age > exp


def ref_initialised(cfg, skipped_ext=False, mid_ok=False):
    """Which blocks get a valid output (ignoring fatal errors); closure over start-up events."""
    profs, edges = cfg['profs'], cfg['edges']
    init = []
    for (p, a, r, i) in profs:
        if p == 'ok' and saved_expired(cfg):
            p = 'none'
        aok = ASYNC_SPEC[a][3] if a != 'none' else False
        if aok is None:
            aok = mid_ok and p != 'ok'
        init.append(bool(p == 'ok' or aok or r == 'set' or i))
    ext = cfg['ext']
    if ext is not None and not skipped_ext:
        init[ext[1]] = True     # the handler of the external event sets the output
    changed = True
    while changed:
        changed = False
        for a, b in edges:
            if init[a] and not init[b]:
                init[b] = changed = True
    return init


def run_profiles(cfg, order, acc):
    profs, edges, ext = cfg['profs'], cfg['edges'], cfg['ext']
    n = len(profs)
    log = []
    res = {}
    with Sim() as sim:
        circuit = sim.circuit
        ts_kind, pexp = cfg.get('ts', 'ok'), cfg.get('exp')
        storage = {}
        if ts_kind == 'ok':
            storage['edzed-stop-time'] = 999_000.0      # 1000 s before the (virtual) restart
        elif ts_kind == 'bad-type':
            storage['edzed-stop-time'] = '999000'
        elif ts_kind == 'future':
            storage['edzed-stop-time'] = 1_500_000.0
        blocks = [None] * n
        for i in order:
            p, a, r, idf = profs[i]
            cls = lblock_class(persist=p != 'none', ainit=a != 'none', ifv=True)
            bcfg = {}
            kw = {}
            if p != 'none':
                kw['persistent'] = True
                if pexp is not None:
                    kw['expiration'] = pexp
                if p == 'raise':
                    bcfg['restore'] = ('raise', Fault('restore'))
            if a != 'none':
                delay, act, tmo, _ok = ASYNC_SPEC[a]
                kw['init_timeout'] = tmo
                bcfg['ainit'] = (delay, ('set', f'async{i}') if act is True else
                                 ('raise', Fault('init_async')) if act == 'raise' else None)
            if r == 'set':
                bcfg['init_regular'] = ('set', f'regular{i}')
            elif r == 'raise':
                bcfg['init_regular'] = ('raise', Fault('init_regular'))
            if idf:
                kw['initdef'] = f'initdef{i}'
            etype = cfg.get('etype')
            outs = [edzed.Event(f'b{j}', SpecialEv() if etype == 'special' else
                                edzed.EventCond(None, 'ev') if etype == 'condnone' else 'ev')
                    for (a_, j) in cfg.get('wires', edges) if a_ == i]
            if outs:
                kw['on_output'] = outs
            blocks[i] = cls(f'b{i}', log=log, cfg=bcfg, **kw)
            if p != 'none':
                storage[blocks[i].key] = f'saved{i}'
        circuit.set_persistent_data(storage)

        async def waiter():
            try:
                await circuit.wait_init()
                res['wait_init'] = 'returned'
            except edzed.EdzedInvalidState:
                res['wait_init'] = 'raised'
            except BaseException as err:    # pylint: disable=broad-except
                res['wait_init'] = f'other:{err!r}'
            res['t_wait'] = sim.now
            res['outs_at_wait'] = [b.output for b in blocks]
            res['ready_at_wait'] = circuit.is_ready()
            res['error_at_wait'] = circuit.error

        async def driver():
            task = asyncio.create_task(circuit.run_forever())
            wtask = asyncio.create_task(waiter())
            await asyncio.sleep(0)
            if ext is not None and ext[0] == 'pre':
                res['ext'] = send_ext()
            if ext is not None and ext[0] == 'async':
                await asyncio.sleep(0.5)
                res['ext_during_async'] = (not circuit._init_done.is_set() and not task.done()
                                           and circuit.error is None)
                if res['ext_during_async']:
                    res['ext'] = send_ext()
                else:
                    res['ext_skipped'] = True
            await wtask
            await sim.loop.idle()
            res['alive'] = not task.done()
            res['error'] = circuit.error
            res['outs'] = [b.output for b in blocks]
            await stop(circuit)
            res['task_exc'] = task.exception() if not task.cancelled() else 'cancelled'

        def send_ext():
            try:
                return ('ok', edzed.ExtEvent(blocks[ext[1]], 'ev').send(f'ext{ext[1]}'))
            except BaseException as err:    # pylint: disable=broad-except
                return ('raised', err)
        try:
            sim.run(driver())
        except Exception as err:    # pylint: disable=broad-except
            res['driver'] = repr(err)
        res['loop_exc'] = list(sim.loop.exc_log)
    return judge_profiles(cfg, order, log, res, blocks)


def judge_profiles(cfg, order, log, res, blocks):
    profs, edges, ext = cfg['profs'], cfg['edges'], cfg['ext']
    if res.get('ext_skipped'):
        ext = None
    viol = []
    n = len(profs)
    if 'driver' in res:
        return [('driver-died', res['driver'])], None
    fatal = any(r == 'raise' for (_p, _a, r, _i) in profs)
    # a block whose init_regular raises may be initialised before by an event... the routine is
    # called anyway (regular always runs), so the start must fail
    init = ref_initialised(cfg, res.get('ext_skipped', False))
    exp_ok = all(init) and not fatal
    unspecified = any(a == 'mid' for (_p, a, _r, _i) in profs)
    exp_ok_alt = all(ref_initialised(cfg, res.get('ext_skipped', False), mid_ok=True)) and not fatal
    started = res['wait_init'] == 'returned'
    label = f"order {order}"
    # 1. the result seen by the task waiting in wait_init()
    if started:
        if any(o is edzed.UNDEF for o in res['outs_at_wait']):
            viol.append(('wait_init-returned-with-UNDEF',
                         f"{label}: wait_init() returned, outputs {res['outs_at_wait']}"))
        if not res['ready_at_wait'] or res['error_at_wait'] is not None:
            viol.append(('wait_init-returned-not-running',
                         f"{label}: wait_init() returned, is_ready={res['ready_at_wait']}, "
                         f"error={res['error_at_wait']!r}"))
        if not res['alive']:
            viol.append(('wait_init-returned-not-running',
                         f"{label}: wait_init() returned but the simulation ended: {res['error']!r}"))
    else:
        if res['wait_init'] != 'raised':
            viol.append(('wait_init-wrong-exception', f"{label}: {res['wait_init']}"))
        if res['error'] is None or res['alive']:
            viol.append(('wait_init-raised-but-running',
                         f"{label}: wait_init() raised, error={res['error']!r}, alive={res['alive']}"))
    if started != exp_ok and started != exp_ok_alt:
        viol.append(('startup-result',
                     f"{label}: start-up {'succeeded' if started else 'failed'} "
                     f"({res['error']!r}); by the documented sources blocks initialisable: {init}, "
                     f"fatal init error: {fatal}"))
    # 2. call logs (after a fatal initialisation error the remaining traffic is not specified)
    for i in range(n if not fatal else 0):
        name = f'b{i}'
        p, a, r, idf = profs[i]
        if p == 'ok' and saved_expired(cfg):
            p = 'expired'
            if any(e[1] == name and e[2] == 'restore' for e in log):
                viol.append(('expired-state-restored', f"{label}: {name}: restore called with an "
                             f"expired saved state (ts {cfg.get('ts')}, expiration {cfg.get('exp')})"))
        mine = [(k, e) for k, e in enumerate(log) if e[1] == name]
        calls = {}
        for k, e in mine:
            calls.setdefault(e[2], []).append((k, e))
        for phase in ('restore', 'init_async', 'init_regular', 'init_from_value', 'start'):
            if len(calls.get(phase, [])) > 1:
                viol.append(('routine-called-twice', f"{label}: {name}.{phase} called "
                             f"{len(calls[phase])} times"))
        seq = [calls[ph][0][0] for ph in ('restore', 'init_async', 'init_regular', 'init_from_value')
               if ph in calls]
        if seq != sorted(seq):
            viol.append(('source-order', f"{label}: {name}: routines ran in the order "
                         f"{[e[2] for _k, e in mine if e[2] in ('restore', 'init_async', 'init_regular', 'init_from_value')]}"))
        if 'init_async' in calls:
            k, e = calls['init_async'][0]
            if e[3]:
                viol.append(('async-init-of-initialised-block',
                             f"{label}: {name}.init_async started although the block was initialised"))
            if a == 'disabled':
                viol.append(('async-init-with-zero-timeout', f"{label}: {name}.init_async ran with init_timeout 0"))
        if 'init_from_value' in calls:
            k, e = calls['init_from_value'][0]
            if e[3]:
                viol.append(('initdef-on-initialised-block',
                             f"{label}: {name}.init_from_value called although initialised"))
        if p == 'ok' and 'restore' not in calls and 'start' in calls and 'init_regular' in calls:
            viol.append(('saved-state-not-used', f"{label}: {name}: restore not called"))
        if 'event' in calls:
            k0, e0 = calls['event'][0]
            need = ['init_regular'] + (['restore'] if p in ('ok', 'raise') else [])
            for ph in need:
                if ph not in calls or calls[ph][0][0] > k0:
                    viol.append(('event-before-sync-init',
                                 f"{label}: {name} handled an event at log index {k0} before its "
                                 f"{ph} ran"))
            if idf and not e0[3] and ('init_from_value' not in calls or calls['init_from_value'][0][0] > k0):
                pass    # handler saw an uninitialised block that has an initdef
            if not e0[3] and idf:
                viol.append(('event-before-sync-init',
                             f"{label}: {name} handled an event while still uninitialised although "
                             f"it has an initdef"))
        if started and (exp_ok or exp_ok_alt):
            # the value must come from a documented source of this block or from an event
            allowed = {f'saved{i}', f'async{i}', f'regular{i}', f'initdef{i}', f'ext{i}'}
            reach = {i}
            ch = True
            while ch:
                ch = False
                for a_, b_ in edges:
                    if b_ in reach and a_ not in reach:
                        reach.add(a_)
                        ch = True
            for j in reach:
                allowed |= {f'saved{j}', f'async{j}', f'regular{j}', f'initdef{j}', f'ext{j}'}
            if res['outs'][i] not in allowed:
                viol.append(('value-from-nowhere', f"{label}: {name} outputs {res['outs'][i]!r}"))
            # precedence for a block without incoming traffic
            if not any(b_ == i for _a, b_ in edges) and (ext is None or ext[1] != i) and a != 'mid':
                if p == 'ok':
                    exp_v = f'regular{i}' if r == 'set' else f'saved{i}'
                elif a in ('early', 'late4'):
                    exp_v = f'regular{i}' if r == 'set' else f'async{i}'
                elif r == 'set':
                    exp_v = f'regular{i}'
                else:
                    exp_v = f'initdef{i}'
                if res['outs'][i] != exp_v:
                    viol.append(('source-precedence',
                                 f"{label}: {name} profile {profs[i]} outputs {res['outs'][i]!r}, "
                                 f"expected {exp_v!r}"))
    # 3. time spent waiting for asynchronous initialisation
    tmax = max([ASYNC_SPEC[a][2] for (_p, a, _r, _i) in profs if a != 'none'] + [0])
    if res['t_wait'] > tmax:
        viol.append(('async-init-waited-too-long',
                     f"{label}: wait_init() finished at t={res['t_wait']} > largest init_timeout {tmax}"))
    if ext is not None and res.get('ext', ('ok',))[0] != 'ok' and not fatal:
        viol.append(('external-event-refused', f"{label}: {res['ext']!r}"))
    if res['loop_exc'] and not fatal:
        viol.append(('loop-exception', f"{label}: {res['loop_exc'][:2]}"))
    return viol, started


# ------------------------------------------------------------------ first evaluation fails

def run_firsteval(cfg, acc):
    viol = []
    res = {}
    log = []
    with Sim() as sim:
        circuit = sim.circuit
        src = edzed.Input('src', initdef=1)
        # blocks fed by constants only / by nothing at all get their output in the first pass too
        edzed.Not('konst').connect(False)
        edzed.FuncBlock('noinputs', func=lambda: 42)
        edzed.And('konst2').connect(True, edzed.Const(1))
        if cfg.get('large'):
            # n healthy blocks are evaluated before the last one (which fails if cb == 'raise')
            shape, n = cfg['large']
            prev = src
            for i in range(n):
                prev = edzed.Not(f'n{i}').connect(prev if shape == 'chain' else src)
            src = prev
        if cfg['cb'] == 'ok':
            edzed.FuncBlock('f', func=lambda a: a).connect(src)
        elif cfg['cb'] == 'raise':
            def boom(a):
                raise Fault('calc_output')
            edzed.FuncBlock('f', func=boom).connect(src)
        elif cfg['cb'] == 'undef':
            edzed.FuncBlock('f', func=lambda a: edzed.UNDEF).connect(src)
        else:
            edzed.Not('f').connect('f')
        if cfg['acleanup']:
            lblock_class(astop=True)('slowstop', log=log, cfg={
                'init_regular': ('set', 0), 'astop': (3, None)}, stop_timeout=10)
        if cfg['slowinit']:
            lblock_class(ainit=True)('slowinit', log=log, cfg={'ainit': (1, ('set', 0))}, init_timeout=5)

        async def waiter(tag):
            try:
                await circuit.wait_init()
                res[tag] = 'returned'
            except edzed.EdzedInvalidState:
                res[tag] = 'raised'
            res[tag + '_state'] = (circuit.is_ready(), repr(circuit.error),
                                   [b.output for b in circuit.getblocks()])

        async def driver():
            task = asyncio.create_task(circuit.run_forever())
            w1 = asyncio.create_task(waiter('w_early'))
            await asyncio.sleep(0)
            w2 = asyncio.create_task(waiter('w_late'))
            await w1
            await w2
            await sim.loop.idle()
            await waiter('w_after')
            res['alive'] = circuit.error is None
            await stop(circuit)
            res['exc'] = task.exception() if not task.cancelled() else None
        sim.run(driver())
    acc.execs += 1
    exp_fail = cfg['cb'] != 'ok'
    for tag in ('w_early', 'w_late', 'w_after'):
        got = res[tag]
        if exp_fail and got != 'raised':
            viol.append(('wait_init-returned-after-failed-first-evaluation',
                         f"first evaluation fails ({cfg['cb']}), async clean-up block: {cfg['acleanup']}, "
                         f"slow init block: {cfg['slowinit']}: wait_init() ({tag}) returned normally; "
                         f"is_ready/error/outputs = {res[tag + '_state']}"))
        if not exp_fail and got != 'returned':
            viol.append(('wait_init-raised', f"healthy circuit: wait_init() ({tag}) {got}"))
        if not exp_fail and got == 'returned':
            undef = sum(1 for o in res[tag + '_state'][2] if o is edzed.UNDEF)
            if undef:
                viol.append(('undefined-output-after-wait_init',
                             f"{cfg.get('large')}: wait_init() ({tag}) returned while {undef} of "
                             f"{len(res[tag + '_state'][2])} blocks have no output yet"))
    if exp_fail and (res['alive'] or not isinstance(res['exc'], Exception)):
        viol.append(('first-evaluation-error-ignored', f"{cfg}: alive={res['alive']} exc={res['exc']!r}"))
    acc.outcome(('firsteval', cfg['cb'], cfg['acleanup'], cfg['slowinit'], cfg.get('large'), res['w_early'], res['w_late']))
    acc.state(('firsteval', cfg['cb'], cfg['acleanup'], cfg['slowinit'], cfg.get('large')))
    return viol


# ------------------------------------------------------------------ library blocks

def run_valuepoll(cfg, acc):
    viol = []
    res = {}
    first = cfg['first']
    with Sim() as sim:
        circuit = sim.circuit
        n = [0]

        def poll():
            n[0] += 1
            t = sim.now
            return f'v{t}' if first is not None and t >= first else edzed.UNDEF

        async def apoll():
            return poll()
        kw = {'initdef': 'dflt'} if cfg['initdef'] else {}
        vp = edzed.ValuePoll('vp', func=apoll if cfg['asyncf'] else poll, interval=1,
                             init_timeout=2.5, **kw)

        async def driver():
            task = asyncio.create_task(circuit.run_forever())
            try:
                await circuit.wait_init()
                res['w'] = 'returned'
            except edzed.EdzedInvalidState:
                res['w'] = 'raised'
            res['t'] = sim.now
            res['out'] = vp.output
            await stop(circuit)
            del task
        sim.run(driver())
    acc.execs += 1
    in_time = first is not None and first < 2.5
    if in_time:
        exp = ('returned', f'v{first}', first)
    elif cfg['initdef']:
        exp = ('returned', 'dflt', 2.5)
    else:
        exp = ('raised', edzed.UNDEF, 2.5)
    got = (res['w'], res['out'], res['t'])
    acc.outcome(('valuepoll', first, cfg['initdef'], cfg['asyncf'], repr(got)))
    acc.state(('valuepoll', first, cfg['initdef'], cfg['asyncf']))
    if got != exp:
        viol.append(('valuepoll-init', f"ValuePoll first value at {first}, initdef {cfg['initdef']}, "
                     f"async func {cfg['asyncf']}: (wait_init, output, time) = {got}, expected {exp}"))
    return viol


IDV = {True: 'ia-default', 'zero': 0, 'empty': '', 'none': None}


def run_initasync(cfg, acc):
    viol = []
    res = {}
    with Sim() as sim:
        circuit = sim.circuit
        calls = [0]

        async def coro(arg):
            calls[0] += 1
            if cfg['coro'] == 'ok1':
                await asyncio.sleep(1)
                return f'got-{arg}'
            if cfg['coro'] == 'late':
                await asyncio.sleep(5)
                return 'late'
            if cfg['coro'] == 'raise':
                await asyncio.sleep(1)
                raise Fault('coro')
            await asyncio.get_running_loop().create_future()
        inp = edzed.Input('inp', initdef='own-default')
        kw = {'initdef': IDV[cfg['initdef']]} if cfg['initdef'] else {}
        flt = edzed.NotIfInitialized('inp') if cfg['flt'] else None
        ia = edzed.InitAsync('ia', init_coro=[coro, 'x'], init_timeout=2,
                             on_output=edzed.Event('inp', 'put', efilter=flt), **kw)

        async def driver():
            task = asyncio.create_task(circuit.run_forever())
            await asyncio.sleep(0)
            if cfg['racing']:
                await asyncio.sleep(0.5)
                edzed.ExtEvent(inp).send('update')     # an update overtakes the initialisation
            try:
                await circuit.wait_init()
                res['w'] = 'returned'
            except edzed.EdzedInvalidState:
                res['w'] = 'raised'
            res['t'] = sim.now
            res['inp'] = inp.output
            res['ia'] = ia.output
            await stop(circuit)
            del task
        sim.run(driver())
    acc.execs += 1
    c = cfg['coro']
    ia_val = 'got-x' if c == 'ok1' else (IDV[cfg['initdef']] if cfg['initdef'] else None)
    sends = c == 'ok1' or cfg['initdef']
    t_exp = 1 if c in ('ok1', 'raise') else 2
    if cfg['racing']:
        # the Input was initialised by the update at 0.5 s
        inp_exp = 'update' if (cfg['flt'] or not sends) else ia_val
    else:
        # the Input is still uninitialised when the InitAsync output event arrives?  No: an event
        # makes the Input run its own synchronous initialisation first (initdef), so with the
        # filter the InitAsync event is dropped
        inp_exp = ia_val if (sends and not cfg['flt']) else 'own-default'
        if sends and cfg['flt']:
            inp_exp = None      # see below: documented purpose is the racing case only
    got = (res['w'], res['ia'], res['t'], res['inp'])
    acc.outcome(('initasync', c, cfg['initdef'], cfg['flt'], cfg['racing'], repr(got)))
    acc.state(('initasync', c, cfg['initdef'], cfg['flt'], cfg['racing']))
    if (res['w'], res['ia'], res['t']) != ('returned', ia_val, t_exp) or calls[0] != 1:
        viol.append(('initasync-init', f"InitAsync {cfg}: (wait_init, output, time) = {got[:3]}, "
                     f"coroutine calls {calls[0]}; expected ('returned', {ia_val!r}, {t_exp})"))
    if inp_exp is not None and res['inp'] != inp_exp:
        viol.append(('initasync-destination', f"InitAsync {cfg}: destination Input holds "
                     f"{res['inp']!r}, expected {inp_exp!r}"))
    return viol


def run_savedfalsy(cfg, acc):
    viol = []
    val = None if cfg['val'] == 'NONE' else cfg['val']
    res = {}
    with Sim() as sim:
        def mk_other():
            return edzed.Input('other', initdef='o')
        if cfg['order'] == 0:
            mk_other()
        inp = edzed.Input('inp', persistent=True, initdef='the-default')
        if cfg['order'] == 1:
            mk_other()
        storage = {inp.key: val, 'edzed-stop-time': 999_000.0}
        sim.circuit.set_persistent_data(storage)

        async def driver():
            task = asyncio.create_task(sim.circuit.run_forever())
            try:
                await sim.circuit.wait_init()
                res['out'] = inp.output
            except Exception as err:    # pylint: disable=broad-except
                res['err'] = repr(err)
            await stop(sim.circuit)
            del task
        sim.run(driver())
    acc.execs += 1
    acc.outcome(('savedfalsy', repr(val), cfg['order'], repr(res)))
    acc.state(('savedfalsy', repr(val)))
    if 'err' in res:
        viol.append(('startup-result', f"saved state {val!r}: start failed: {res['err']}"))
    elif res['out'] != val or type(res['out']) is not type(val):
        viol.append(('saved-state-not-used', f"persistent Input with the saved state {val!r} and initdef "
                     f"'the-default' came up with {res['out']!r}: the saved state is the first source"))
    return viol


def cfg_key(cfg):
    return (cfg['profs'], cfg['edges'], cfg['ext'], cfg.get('ts'), cfg.get('exp'), cfg.get('etype'),
            cfg.get('wires'))


def run_config(cfg):
    acc = Acc()
    if cfg['kind'] == 'profiles':
        n = len(cfg['profs'])
        results = {}
        s0 = acc.state(('circuit', cfg_key(cfg)))
        for order in itertools.permutations(range(n)):
            viol, started = run_profiles(cfg, order, acc)
            acc.execs += 1
            results[order] = started
            acc.count('startups_succeeded' if started else 'startups_refused')
            acc.outcome((cfg_key(cfg), order, started, tuple(v[0] for v in viol)))
            acc.transition(s0, repr(order), acc.state(('result', cfg_key(cfg), started)))
            for sig, msg in viol[:3]:
                acc.violation(f"C05:{sig}", msg, cfg=cfg, detail={'order': order})
        if len(set(results.values())) > 1:
            acc.violation('C05:creation-order-dependent',
                          f"start-up result depends on the creation order: {results}", cfg=cfg)
        acc.sample({'profiles': cfg['profs'], 'edges': cfg['edges'], 'ext': cfg['ext'],
                    'started': results}, limit=3)
    else:
        fn = {'firsteval': run_firsteval, 'valuepoll': run_valuepoll, 'initasync': run_initasync,
              'savedfalsy': run_savedfalsy}[cfg['kind']]
        for sig, msg in fn(cfg, acc):
            acc.violation(f"C05:{sig}", msg, cfg=cfg)
    return acc

"""
One-execution context: fresh circuit, fresh virtual loop and clock, captured logging.
"""
from __future__ import annotations

import asyncio
import gc
import logging
import signal

import edzed

from . import vclock
from .vloop import VLoop, MinimalLoop, Deadlock, Livelock   # noqa: F401  (re-export)

TICK = 1_000_000      # one tick = one virtual second (in microseconds)


class _Hang(KeyboardInterrupt):
    """Raised by the watchdog inside a callback that never returns (KeyboardInterrupt-like so
    that asyncio lets it propagate out of the loop)."""


_watchdog = {'seconds': 10.0, 'hits': 0}


def _on_alarm(_signo, _frame):
    _watchdog['hits'] += 1
    raise _Hang()


class _Capture(logging.Handler):
    def __init__(self):
        super().__init__(level=logging.DEBUG)
        self.records = []

    def emit(self, record):
        self.records.append(record)


_capture = _Capture()
_elog = logging.getLogger('edzed')
_alog = logging.getLogger('asyncio')


def _ensure_capture():
    for lg in (_elog, _alog):
        if _capture not in lg.handlers:
            lg.addHandler(_capture)
        lg.propagate = False
    _elog.setLevel(logging.INFO)


class Sim:
    """
    with Sim(chooser) as sim:
        ... create blocks ...
        result = sim.run(driver_coroutine)
    """

    _count = 0

    def __init__(self, chooser=None, *, start_us=0, base_unix_us=1_000_000_000_000,
                 cron=False, read_lat_us=1, loop_cls=VLoop, tz_hours=0, **loopkw):
        self.chooser = chooser
        self._tz_hours = tz_hours
        self._args = (start_us, base_unix_us, cron, read_lat_us, loop_cls, loopkw)
        self.loop = None
        self.storage = None

    def __enter__(self):
        start_us, base_unix_us, cron, read_lat_us, loop_cls, loopkw = self._args
        _ensure_capture()
        _capture.records = []
        edzed.reset_circuit()
        if loop_cls is VLoop:
            self.loop = VLoop(self.chooser, start_us=start_us, **loopkw)
        else:
            self.loop = loop_cls(start_us)
        vclock.install(self.loop, base_unix_us, cron=cron, read_lat_us=read_lat_us,
                       tz_hours=self._tz_hours)
        self.circuit = edzed.get_circuit()
        return self

    def __exit__(self, *exc):
        try:
            if self.loop is not None and not self.loop.is_closed():
                VLoop.shutdown_leftovers(self.loop)
        finally:
            vclock.uninstall()
            self.loop = None
            Sim._count += 1
            if Sim._count % 64 == 0:
                # cyclic garbage keeps finished tasks in asyncio's global weak set and makes
                # all_tasks() slower and slower; collect regularly (automatic gc is off)
                gc.collect()
            try:
                asyncio.events._set_running_loop(None)
            except Exception:   # pylint: disable=broad-except
                pass
        return False

    @property
    def logs(self):
        return _capture.records

    def log_msgs(self, minlevel=logging.WARNING):
        out = []
        for r in _capture.records:
            if r.levelno >= minlevel:
                try:
                    out.append((r.levelname, r.getMessage()))
                except Exception:   # pylint: disable=broad-except
                    out.append((r.levelname, str(r.msg)))
        return out

    def run(self, coro):
        """
        Run the driver; the loop stays open so that leftovers can be inspected.

        A real-time watchdog turns a callback that never returns (code under test spinning
        without yielding to the loop) into a Livelock exception instead of a hung check.  It is
        generous (10 s for executions that take about a millisecond); after the first hit in a
        process it drops to 0.25 s, because that run is failing anyway.
        """
        secs = _watchdog['seconds'] if not _watchdog['hits'] else 0.25
        old = signal.signal(signal.SIGALRM, _on_alarm)
        signal.setitimer(signal.ITIMER_REAL, secs, secs)
        try:
            return self.loop.run_until_complete(coro)
        except _Hang:
            raise Livelock(f"a callback occupied the event loop for more than {secs} s "
                           "of real time without returning") from None
        finally:
            signal.setitimer(signal.ITIMER_REAL, 0)
            signal.signal(signal.SIGALRM, old)

    @property
    def now(self) -> int:
        """Virtual time in ticks (may be fractional)."""
        us = self.loop.now_us
        return us // TICK if us % TICK == 0 else us / TICK


async def settle(loop):
    """Yield until nothing is ready to run (the simulator is waiting on its queue)."""
    await loop.idle()


async def stop(circuit):
    """shutdown() that returns the simulation's error (or None) instead of raising."""
    try:
        await circuit.shutdown()
    except BaseException as err:    # pylint: disable=broad-except
        return err
    return None

#!/opt/veriftools/pyvenv/bin/python
"""Validate MANIFEST.json and every evidence file against the schemas in /root/.vp."""
import json, sys, glob, jsonschema
ok = True
def check(path, schema):
    global ok
    try:
        jsonschema.validate(json.load(open(path)), json.load(open(schema)))
        print("ok  ", path)
    except Exception as err:
        ok = False
        print("FAIL", path, str(err)[:300])
check('/verif/MANIFEST.json', '/root/.vp/MANIFEST.schema.json')
m = json.load(open('/verif/MANIFEST.json'))
for c in m['checks']:
    check(c['evidence_file'], '/root/.vp/EVIDENCE.schema.json')
ids = {c['property_id'] for c in m['checks']} | {n['property_id'] for n in m.get('not_applicable', [])}
allp = {json.loads(l)['id'] for l in open('/verif/properties.jsonl')}
if ids != allp:
    ok = False; print("FAIL property coverage", sorted(allp ^ ids))
sys.exit(0 if ok else 1)

"""
C04 - a timed state yields its timed event exactly once, on time, unless left earlier.

Explicit-state search on virtual time over the live FSM (generic timed FSMs, Timer,
InputExp): actions = external event (with / without a 'duration' item), advance one
tick, advance to the pending expiry, an external event in the *same instant* as the expiry
(both tie orders), stop.  A reference timed automaton runs in lock step; after every
step: state, output, ordered action log with times, census of live timer handles
targeting the FSM, get_state()[1].
"""
from __future__ import annotations

import asyncio
import copy

import edzed

from ..explore import Acc, explore
from ..harness import Sim, TICK, stop
from ..probes import Probe
from ..stategraph import fingerprint

PROPERTY = 'C04'
LEVEL = 'model_checking'
LEVEL_TEXT = ("Explicit-state model checking on a virtual clock: for each timed-FSM configuration "
              "(duration sources x rule for the timed event; Timer variants; InputExp) every action "
              "(event with/without duration item, tick, run to expiry, event in the instant of the "
              "expiry with both tie orders, stop) is applied in every reachable canonical state "
              "(FSM state, remaining ticks); a reference timed automaton must agree on state, output, "
              "timed log, number and deadline of live timer handles and the reported expiration.")
LEVEL_NOTE = ("Durations are whole virtual seconds (<=3), zero timer latency; time-abstract canonical "
              "state (state, deadline-now) makes the graph finite; closed unless the depth cap is reported.")
TECHNIQUE = "explicit-state model checking of the implementation on virtual time vs. reference timed automaton"
RULE = ("config = FSM kind x duration sources x timed-event rule; BFS node = (history, tie choices); "
        "outcome = (config, canonical state, action, observed log); distinct = distinct tuples")
ASSUMPTIONS = ["virtual loop with stock CPython 3.12 scheduling, integer-second durations",
               "when an event shares the instant of an expiry, either order is accepted"]

UNDEF = edzed.UNDEF
INF = float('inf')
ABSENT = 'absent'
BASE_US = 1_000_000_000_000     # wall clock base (us): 1e6 s after the epoch
LOG = []


def norm_dur(d):
    """Documented duration normalisation, independent of edzed.utils (ticks = seconds)."""
    if d is None or d == ABSENT:
        return None
    if d == 'INF':
        return INF
    if isinstance(d, str):
        total, num = 0, ''
        for chx in d:
            if chx.isdigit():
                num += chx
            elif chx == 'm':
                total += 60 * int(num)
                num = ''
            elif chx == 's':
                total += int(num)
                num = ''
        return total
    return max(0, d)


# ------------------------------------------------------------------ configurations

def configs(tier):
    out = []
    for cls_d in (2, None, 'INF', 0, '2s', 3):
        for inst_d in (ABSENT, 3, None, 0, '0m3s', 'INF', -1):
            for rule in ('to_a', 'none_target', 'cond_false', 'goto_a', 'self', 'enter_chain'):
                if tier == 'quick' and rule in ('goto_a', 'self', 'enter_chain') and inst_d not in (ABSENT, 3):
                    continue
                out.append(dict(kind='gen', cls_d=cls_d, inst_d=inst_d, rule=rule))
    # ping-pong, both states timed, Goto events
    for d_on in (2, 0):
        for d_off in (3, 'INF', 0):
            if d_on == 0 and d_off == 0:
                continue    # endless zero-length chain: error, covered by C03
            out.append(dict(kind='pingpong', d_on=d_on, d_off=d_off))
    for t_on in (ABSENT, 2):
        for t_off in (ABSENT, 3):
            for restartable in (True, False):
                for initdef in ('off', 'on'):
                    out.append(dict(kind='timer', t_on=t_on, t_off=t_off, period=None,
                                    restartable=restartable, initdef=initdef))
    for restartable in (True, False):
        out.append(dict(kind='timer', t_on=ABSENT, t_off=ABSENT, period=4,
                        restartable=restartable, initdef='off'))
    for dur in (2, '3s', None):
        for init in (ABSENT, 'iv'):
            out.append(dict(kind='inputexp', dur=dur, init=init))
    out += [dict(c, sib=1) for c in out if c['kind'] != 'pingpong']
    # an attempt to leave the timed state fails half-way: the on_exit event is refused by its
    # destination (EdzedUnknownEvent: reported to the caller, not fatal), the state is not left
    for d in (3, 0.5):
        for steps in _exitfail_sequences(3 if tier == 'quick' else 4):
            out.append(dict(kind='exitfail', d=d, steps=steps))
    out += [dict(c, asyncbase=1) for c in out if c['kind'] == 'gen' and not c.get('sib')
            and c['rule'] in ('to_a', 'cond_false')]
    return out


def alphabet(cfg):
    k = cfg['kind']
    if k == 'gen':
        evs = [('go', None), ('go', 1), ('go', 0), ('go', 'INF'), ('go', '2s'), ('back', None)]
        same = [('go', None), ('back', None), ('go', 1)]
    elif k == 'pingpong':
        evs = [('flip', None), ('flip', 1)]
        same = [('flip', None)]
    elif k == 'timer':
        evs = [('start', None), ('stop', None), ('toggle', None), ('start', 1), ('stop', 0)]
        same = [('start', None), ('stop', None), ('toggle', None)]
    else:
        evs = [('put', None), ('put', 1), ('put', 0), ('put', 'INF')]
        same = [('put', None), ('put', 1)]
    al = [('ev',) + e for e in evs]
    al += [('tick',), ('to_expiry',)]
    al += [('expiry+ev',) + e for e in same]
    al += [('stop',), ('expiry+stop',)]
    return al


# ------------------------------------------------------------------ reference automaton

class Fatal(Exception):
    pass


class TRef:
    def __init__(self, cfg):
        self.cfg = cfg
        k = cfg['kind']
        self.value = None
        if k == 'gen':
            self.states = ['a', 'b']
            self.rules = {('go', None): 'b', ('back', 'b'): 'a'}
            r = cfg['rule']
            if r in ('to_a', 'cond_false', 'enter_chain'):
                self.rules[('tmo', 'b')] = 'a'
            elif r == 'none_target':
                self.rules[('tmo', 'b')] = None
                self.rules[('tmo', None)] = 'a'    # the specific rule must win
            elif r == 'self':
                self.rules[('tmo', 'b')] = 'b'
            tev = ('goto', 'a') if r == 'goto_a' else 'tmo'
            self.timers = {'b': (cfg['cls_d'], tev)}
            self.inst = {'b': cfg['inst_d']}
            self.init = 'a'
        elif k == 'pingpong':
            self.states = ['off', 'on']
            self.rules = {('flip', 'on'): 'off', ('flip', 'off'): 'on'}
            self.timers = {'on': (cfg['d_on'], ('goto', 'off')), 'off': (cfg['d_off'], ('goto', 'on'))}
            self.inst = {}
            self.init = 'off'
        elif k == 'timer':
            self.states = ['off', 'on']
            self.rules = {('start', None): 'on', ('stop', None): 'off',
                          ('toggle', 'on'): 'off', ('toggle', 'off'): 'on'}
            self.timers = {'on': ('INF', 'stop'), 'off': ('INF', 'start')}
            if cfg['period'] is not None:
                self.inst = {'on': cfg['period'] / 2, 'off': cfg['period'] / 2}
            else:
                self.inst = {'on': cfg['t_on'], 'off': cfg['t_off']}
            self.init = cfg['initdef']
        else:
            self.states = ['expired', 'valid']
            self.rules = {('put', None): 'valid'}
            self.timers = {'valid': (None, ('goto', 'expired'))}
            self.inst = {'valid': cfg['dur']}
            self.init = 'valid' if cfg['init'] != ABSENT else 'expired'
            if cfg['init'] != ABSENT:
                self.value = cfg['init']
        self.state = None
        self.deadline = None
        self.out = UNDEF

    # ---- pieces
    def cond_logged(self, e):
        return True

    def cond_value(self, e, state):
        k = self.cfg['kind']
        if k == 'gen' and e == 'tmo' and self.cfg['rule'] == 'cond_false':
            return False
        if k == 'timer' and not self.cfg['restartable']:
            if e == 'start':
                return state != 'on'
            if e == 'stop':
                return state != 'off'
        return True

    def outval(self):
        k = self.cfg['kind']
        if k == 'timer':
            return self.state == 'on'
        if k == 'inputexp':
            return self.value if self.state == 'valid' else 'EXPIRED'
        return self.state

    def lookup(self, e, s):
        if (e, s) in self.rules:
            return self.rules[(e, s)]
        return self.rules.get((e, None))

    def eff(self, state, ev_dur):
        for src in (ev_dur, self.inst.get(state, ABSENT), self.timers[state][0]):
            d = norm_dur(src)
            if d is not None:
                return d
        return None

    def resolve(self, e, now, log, initialised=True):
        """-> target state or None (rejected); logs cond / notrans."""
        if isinstance(e, tuple):
            return e[1]
        new = self.lookup(e, self.state)
        if new is None:
            log.append(('notrans', e, self.state, now))
            return None
        if initialised:
            log.append(('cond', e, now))
            if not self.cond_value(e, self.state):
                return None
        return new

    def deliver(self, e, ev_dur, now, log, value=None):
        initialised = self.out is not UNDEF
        new = self.resolve(e, now, log, initialised)
        if new is None:
            return False
        if self.cfg['kind'] == 'inputexp' and e == 'put':
            self.value = value
        if initialised:
            log.append(('exit', self.state, now))
        self.deadline = None
        for _ in range(3 * len(self.states)):
            self.state = new
            log.append(('enter', new, now))
            if self.cfg.get('rule') == 'enter_chain' and new == 'b':
                # the entry action of the timed state b requests a transition: b is an
                # intermediate state, its timer must not run
                nxt = self.resolve('back', now, log)
                log.append(('exit', new, now))
                new, ev_dur = nxt, None
                continue
            if new in self.timers:
                d = self.eff(new, ev_dur)
                if d is None:
                    raise Fatal('Timer duration')
                if d == INF:
                    pass
                elif d <= 0:
                    nxt = self.resolve(self.timers[new][1], now, log)
                    if nxt is not None:
                        log.append(('exit', new, now))
                        new, ev_dur = nxt, None
                        continue
                else:
                    self.deadline = now + d
            break
        else:
            raise Fatal('Chained state transition limit')
        if self.cfg['kind'] == 'inputexp' and self.state == 'expired':
            self.value = None
        self.out = self.outval()
        return True

    def expire(self, now, log):
        assert self.deadline == now
        self.deadline = None
        self.deliver(self.timers[self.state][1], None, now, log)


# ------------------------------------------------------------------ block under test

def _logger(kind, name, retval=None):
    def fn():
        LOG.append((kind, name, asyncio.get_running_loop().now_us // TICK))
        return retval
    return fn


def build(cfg, probe):
    k = cfg['kind']
    kw = {}
    ref = TRef(cfg)
    if k == 'gen':
        r = cfg['rule']
        events = [('go', None, 'b'), ('back', 'b', 'a')]
        if r in ('to_a', 'cond_false', 'enter_chain'):
            events.append(('tmo', 'b', 'a'))
        elif r == 'none_target':
            events += [('tmo', 'b', None), ('tmo', None, 'a')]
        elif r == 'self':
            events.append(('tmo', 'b', 'b'))
        tev = edzed.Goto('a') if r == 'goto_a' else 'tmo'
        dflt = cfg['cls_d']
        ns = {'STATES': ['a', 'b'], 'EVENTS': events,
              'TIMERS': {'b': (edzed.INF_TIME if dflt == 'INF' else dflt, tev)}}
        if r == 'enter_chain':
            ns['enter_b'] = lambda self: self.event('back')
        # (asyncbase: an FSM that also carries the AddonAsync add-on, without using stop_async)
        cls = type('GenT', (edzed.AddonAsync, edzed.FSM) if cfg.get('asyncbase') else (edzed.FSM,), ns)
        if cfg['inst_d'] != ABSENT:
            kw['t_b'] = edzed.INF_TIME if cfg['inst_d'] == 'INF' else cfg['inst_d']
        evnames = ['go', 'back'] + (['tmo'] if r != 'goto_a' else [])
    elif k == 'pingpong':
        def dd(x):
            return edzed.INF_TIME if x == 'INF' else x
        cls = type('PingPong', (edzed.FSM,), {
            'STATES': ['off', 'on'],
            'EVENTS': [('flip', 'on', 'off'), ('flip', 'off', 'on')],
            'TIMERS': {'on': (dd(cfg['d_on']), edzed.Goto('off')),
                       'off': (dd(cfg['d_off']), edzed.Goto('on'))}})
        evnames = ['flip']
    elif k == 'timer':
        cls = edzed.Timer
        if cfg['period'] is not None:
            kw['t_period'] = cfg['period']
        else:
            if cfg['t_on'] != ABSENT:
                kw['t_on'] = cfg['t_on']
            if cfg['t_off'] != ABSENT:
                kw['t_off'] = cfg['t_off']
        kw['restartable'] = cfg['restartable']
        kw['initdef'] = cfg['initdef']
        evnames = ['start', 'stop', 'toggle']
    else:
        cls = edzed.InputExp
        kw['duration'] = cfg['dur']
        kw['expired'] = 'EXPIRED'
        if cfg['init'] != ABSENT:
            kw['initdef'] = cfg['init']
        evnames = ['put']
    for s in ref.states:
        kw[f'enter_{s}'] = _logger('enter', s)
        kw[f'exit_{s}'] = _logger('exit', s)
    for e in evnames:
        rv = True
        if k == 'gen' and e == 'tmo' and cfg['rule'] == 'cond_false':
            rv = False
        kw[f'cond_{e}'] = _logger('cond', e, rv)
    kw['on_notrans'] = edzed.Event(probe, 'notrans')
    if cfg.get('sib'):
        # idle instances of the same class with other durations, created before and after
        sib = {'gen': lambda n, d: cls(n, t_b=d), 'pingpong': None,
               'timer': lambda n, d: cls(n, t_on=d),
               'inputexp': lambda n, d: cls(n, duration=d, expired='X')}.get(k)
        if sib is not None:
            sib('sib_before', 77)
    blk = cls('fsm', **kw)
    if cfg.get('sib') and sib is not None:
        sib('sib_after', 99)
    return blk, ref


def norm_log():
    out = []
    for rec in LOG:
        if len(rec) == 4 and isinstance(rec[3], dict):
            t, _n, _e, d = rec
            out.append(('notrans', d.get('event'), d.get('state'), t // TICK))
        else:
            out.append(rec)
    # Timer has a cond method and we add a cond callback: both are consulted, order undefined;
    # only our callback logs, nothing to normalise
    return out


def census(loop, blk):
    return [h for h in loop._scheduled
            if not h._cancelled and getattr(h._callback, '__self__', None) is blk]


def run_history(cfg, hist, chooser):
    """Replay hist. -> (canon, info)"""
    info = {'viol': [], 'steps': []}
    del LOG[:]
    with Sim(chooser, base_unix_us=BASE_US) as sim:
        loop = sim.loop
        probe = Probe('probe', log=LOG)
        try:
            blk, ref = build(cfg, probe)
        except Exception as err:    # pylint: disable=broad-except
            info['viol'].append(('construction-failed', repr(err)))
            return None, info

        def observe(step, ref_alts, n):
            """Compare the block with the candidate reference automata; return the match."""
            got_log = norm_log()
            now = loop.now_us // TICK
            hs = census(loop, blk)
            try:
                gs = blk.get_state()
            except Exception as err:    # pylint: disable=broad-except
                gs = ('ERR', repr(err), None)
            obs = dict(state=blk.state, out=blk.output, log=got_log, nh=len(hs),
                       when=[round(h.when() * 1_000_000) // TICK for h in hs],
                       exp=gs[1], err=repr(sim.circuit.error) if sim.circuit.error else None)
            info['steps'].append((step, blk.state, repr(blk.output), obs['when'], now))
            problems = None
            for r, rlog, fatal in ref_alts:
                p = []
                if fatal:
                    if obs['err'] is None or fatal not in obs['err']:
                        p.append(('missing-error', f"expected fatal '{fatal}', error={obs['err']}"))
                    if not p:
                        return r, True
                    problems = problems or p
                    continue
                if obs['err'] is not None:
                    p.append(('unexpected-error', obs['err']))
                if obs['state'] != r.state:
                    p.append(('wrong-state', f"state {obs['state']!r}, expected {r.state!r}"))
                if obs['out'] != r.out:
                    p.append(('wrong-output', f"output {obs['out']!r}, expected {r.out!r}"))
                if got_log != rlog:
                    kinds_g = [x[:2] for x in got_log]
                    kinds_r = [x[:2] for x in rlog]
                    timed = any(x[0] in ('cond', 'notrans', 'enter') for x in got_log)
                    if kinds_g == kinds_r:
                        sig = 'timed-event-wrong-time'
                    elif len(got_log) > len(rlog):
                        sig = 'extra-or-stale-timed-event' if timed else 'action-log'
                    else:
                        sig = 'missing-timed-event'
                    p.append((sig, f"log {got_log!r}, expected {rlog!r}"))
                if obs['nh'] > 1:
                    p.append(('more-than-one-timer', f"{obs['nh']} live timer handles: {obs['when']}"))
                if (obs['nh'] == 1) != (r.deadline is not None):
                    p.append(('timer-census', f"live timers {obs['when']}, model deadline {r.deadline}"))
                elif r.deadline is not None and obs['when'] != [r.deadline]:
                    p.append(('timer-deadline', f"timer at {obs['when']}, model deadline {r.deadline}"))
                if r.deadline is None:
                    if obs['exp'] is not None:
                        p.append(('get_state-reports-timer-without-timer',
                                  f"get_state()[1]={obs['exp']!r} but no timer is pending (t={now})"))
                elif obs['exp'] is None or abs(obs['exp'] - (BASE_US / 1e6 + r.deadline)) > 1e-3:
                    p.append(('get_state-expiration', f"get_state()[1]={obs['exp']!r}, expected {BASE_US / 1e6 + r.deadline}"))
                if not p:
                    return r, False
                problems = problems or p
            for sig, msg in problems:
                info['viol'].append((sig, f"step {n} {step} at t={now}: {msg}"))
            return ref_alts[0][0], bool(ref_alts[0][2])

        async def driver():
            nonlocal ref
            task = asyncio.create_task(sim.circuit.run_forever())
            rlog = []
            fatal = None
            try:
                ref.deliver(('goto', ref.init), None, 0, rlog)
            except Fatal as f:
                fatal = str(f)
            try:
                await sim.circuit.wait_init()
            except Exception as err:    # pylint: disable=broad-except
                if not fatal:
                    info['viol'].append(('start-failed', repr(err)))
                info['dead'] = True
                return
            await loop.idle()
            ref, dead = observe(('init',), [(ref, rlog, fatal)], -1)
            if dead:
                info['dead'] = True
            for n, sym in enumerate(hist):
                if info.get('dead'):
                    break
                del LOG[:]
                now = loop.now_us // TICK
                kind = sym[0]
                alts = []

                def ref_event(r, sym, t, lg):
                    try:
                        r.deliver(sym[1], sym[2], t, lg, value=f"v{n % 2}")
                        return None
                    except Fatal as f:
                        return str(f)

                def send(sym):
                    data = {}
                    if sym[2] is not None:
                        data['duration'] = edzed.INF_TIME if sym[2] == 'INF' else sym[2]
                    if cfg['kind'] == 'inputexp':
                        data["value"] = f"v{n % 2}"
                    try:
                        edzed.ExtEvent(blk, sym[1]).send(**data)
                    except edzed.EdzedInvalidState:
                        pass
                    except Exception:   # pylint: disable=broad-except
                        pass    # the circuit error is what we look at
                if kind == 'ev':
                    r = copy.deepcopy(ref)
                    lg = []
                    f = ref_event(r, sym, now, lg)
                    alts.append((r, lg, f))
                    send(sym)
                    await loop.idle()
                elif kind == 'tick':
                    r = copy.deepcopy(ref)
                    lg = []
                    f = None
                    if r.deadline == now + 1:
                        try:
                            r.expire(now + 1, lg)
                        except Fatal as ff:
                            f = str(ff)
                    alts.append((r, lg, f))
                    await loop.sleep_until_us((now + 1) * TICK)
                    await loop.idle()
                elif kind in ('to_expiry', 'expiry+ev', 'expiry+stop'):
                    if ref.deadline is None:
                        info['noop'] = True
                        break
                    t = ref.deadline
                    # order 1: the timer first
                    r1 = copy.deepcopy(ref)
                    l1 = []
                    f1 = None
                    try:
                        r1.expire(t, l1)
                    except Fatal as ff:
                        f1 = str(ff)
                    if kind == 'expiry+ev':
                        if f1 is None:
                            f1 = ref_event(r1, sym, t, l1)
                        alts.append((r1, l1, f1))
                        # order 2: the event first (it may cancel or restart the timer)
                        r2 = copy.deepcopy(ref)
                        l2 = []
                        f2 = ref_event(r2, sym, t, l2)
                        if f2 is None and r2.deadline == t:
                            try:
                                r2.expire(t, l2)
                            except Fatal as ff:
                                f2 = str(ff)
                        alts.append((r2, l2, f2))
                        # sent from a timer callback with the same deadline: a real tie
                        await loop.call_at_us(t * TICK, send, sym)
                        await loop.idle()
                    elif kind == 'expiry+stop':
                        n0 = len(LOG)
                        await loop.call_at_us(
                            t * TICK, sim.circuit.abort, asyncio.CancelledError('shutdown'))
                        await stop(sim.circuit)
                        n_at_stop = len(norm_log())
                        await loop.sleep_until_us((t + 8) * TICK)
                        await loop.idle()
                        got = norm_log()
                        # the timed event may have been delivered before the stop, not after
                        if len(got) > n_at_stop:
                            info['viol'].append(('timed-event-after-stop', f"log after stop: {got[n_at_stop:]!r}"))
                        if census(loop, blk):
                            info['viol'].append(('timer-after-stop', f"live timer after stop at t={t}"))
                        if f1 is None and got not in ([], l1):
                            info['viol'].append(('extra-or-stale-timed-event',
                                                 f"stop in the expiry instant: log {got!r}, expected [] or {l1!r}"))
                        del n0
                        info['dead'] = True
                        break
                    else:
                        alts.append((r1, l1, f1))
                        await loop.sleep_until_us(t * TICK)
                        await loop.idle()
                elif kind == 'stop':
                    await stop(sim.circuit)
                    t = now
                    await loop.sleep_until_us((t + 8) * TICK)
                    await loop.idle()
                    got = norm_log()
                    if got:
                        info['viol'].append(('timed-event-after-stop', f"log after stop: {got!r}"))
                    if census(loop, blk):
                        info['viol'].append(('timer-after-stop', "live timer handle after stop"))
                    info['dead'] = True
                    break
                ref, dead = observe(sym, alts, n)
                if dead:
                    info['dead'] = True
            if not info.get('dead') and not info.get('noop'):
                now = loop.now_us // TICK
                info['canon'] = (blk.state, repr(blk.output),
                                 None if ref.deadline is None else ref.deadline - now,
                                 [w - now for w in (round(h.when() * 1e6) // TICK for h in census(loop, blk))].__repr__(),
                                 fingerprint(blk, skip=('comment', 'name', 'key', 'debug')),
                                 repr(sorted(blk.sdata.items())) if cfg['kind'] != 'inputexp' else blk.state)
            await stop(sim.circuit)
            del task
        try:
            sim.run(driver())
        except Exception as err:    # pylint: disable=broad-except
            info['viol'].append(('driver-died', repr(err)))
            info['dead'] = True
    return (None if (info.get('dead') or info.get('noop')) else info.get('canon')), info


def _exitfail_sequences(maxlen):
    import itertools
    al = ('fail-back', 'fail-goto', 'ok-back', 'tick')
    out = []
    for ln in range(1, maxlen + 1):
        for seq in itertools.product(al, repeat=ln):
            if any(x.startswith('fail') for x in seq) and 'ok-back' not in seq[:-1]:
                out.append(seq)
    return out


def run_exitfail(cfg, acc):
    d = cfg['d']
    viol = []
    trace = []
    with Sim() as sim:
        loop = sim.loop
        armed = []
        entered = []

        class TF(edzed.FSM):
            STATES = ['a', 'b']
            EVENTS = [['go', ['a'], 'b'], ['back', ['b'], 'a'], ['tmo', ['b'], 'a']]
            TIMERS = {'b': (d, 'tmo')}

            def enter_a(self):
                entered.append((loop.now_us / TICK, self.event_data_etype if hasattr(self, 'event_data_etype') else None))
        refuser = edzed.Input('refuser', initdef=0)
        gate = lambda data: bool(armed)     # noqa: E731
        fsm = TF('fsm', on_exit_b=edzed.Event(refuser, 'no-such-event', efilter=gate))

        async def driver():
            task = asyncio.create_task(sim.circuit.run_forever())
            await sim.circuit.wait_init()
            del entered[:]
            t_enter = loop.now_us / TICK
            edzed.ExtEvent(fsm, 'go').send()
            left_at = None
            for step in cfg['steps']:
                # (0.7 s / 0.2 s apart: never in the instant of the expiry itself)
                await loop.sleep_until_us(loop.now_us + (TICK // 5 if d < 1 else TICK * 7 // 10))
                now = loop.now_us / TICK
                if left_at is None and now >= t_enter + d:
                    left_at = t_enter + d       # expired meanwhile
                if left_at is not None:
                    break
                if step == 'tick':
                    trace.append((now, step, fsm.state))
                    continue
                if step.startswith('fail'):
                    armed.append(1)
                try:
                    if step == 'fail-goto':
                        ret = fsm.event(edzed.Goto('a'))
                    else:
                        ret = edzed.ExtEvent(fsm, 'back').send()
                except edzed.EdzedUnknownEvent as err:
                    ret = 'EdzedUnknownEvent'
                except Exception as err:    # pylint: disable=broad-except
                    ret = repr(err)
                del armed[:]
                trace.append((now, step, ret, fsm.state, fsm.get_state()[1] is not None))
                if not sim.circuit.is_ready():
                    viol.append(('simulation-stopped', f"{cfg}: {sim.circuit.error!r}; trace {trace}"))
                    return
                if left_at is None:
                    if step == 'ok-back':
                        left_at = now
                    elif fsm.state == 'b' and fsm.get_state()[1] is None:
                        viol.append(('timed-state-without-timer',
                                     f"timed state b ({d} s), steps {cfg['steps']}: after the failed attempt to leave "
                                     f"it at t={now} (on_exit event refused) the FSM is still in b, but has no timer; "
                                     f"trace {trace}"))
                    elif fsm.state != 'b':
                        trace.append('state left by a failed event: not judged here (C03)')
                        left_at = -1
            await loop.sleep_until_us(int((t_enter + d + 6) * TICK))
            if left_at is None:
                left_at = t_enter + d
            trace.append(('end', fsm.state, entered))
            if left_at >= 0:
                times = [t for t, _e in entered]
                if fsm.state != 'a' or times != [left_at]:
                    viol.append(('timed-event-lost-or-late',
                                 f"timed state b ({d} s) entered at {t_enter}, steps {cfg['steps']}: expected to be in "
                                 f"state a since t={left_at}; state {fsm.state!r}, entries into a at {times}; trace {trace}"))
            await stop(sim.circuit)
            del task
        sim.run(driver())
    acc.execs += 1
    acc.outcome(('exitfail', d, cfg['steps'], repr(trace)))
    acc.state(('exitfail', d, tuple(x[3] if len(x) > 3 else x[-1] for x in trace if isinstance(x, tuple))))
    return viol


def cfg_key(cfg):
    return repr(sorted((k, repr(v)) for k, v in cfg.items()))


def run_config(cfg):
    acc = Acc()
    if cfg['kind'] == 'exitfail':
        for sig, msg in run_exitfail(cfg, acc):
            acc.violation(f"C04:{sig}:exitfail", msg, cfg=cfg)
        return acc
    key = cfg_key(cfg)
    al = alphabet(cfg)
    max_depth = cfg.get('depth', 6)
    # BFS; a node = (history, tie choices) because ties make steps nondeterministic
    import collections
    seen = {}
    frontier = collections.deque()
    root_canon, info = run_history(cfg, (), None)
    acc.execs += 1
    for sig, msg in info['viol']:
        acc.violation(f"C04:{sig}:{cfg['kind']}", msg, cfg=cfg, detail={'history': []})
    if root_canon is None:
        acc.state(('terminal', key))
        acc.count('configs_fatal_at_init')
        return acc
    h0 = acc.state((key, root_canon))
    seen[h0] = True
    frontier.append(((), [], h0))
    closed = True
    while frontier:
        if acc.violations:
            break       # fail fast: a broken tree makes the graph explode (stale timers)
        if acc.execs > 40000:
            closed = False
            acc.caps.append('execs_per_config')
            break
        hist, choices, hc = frontier.popleft()
        if len(hist) >= max_depth:
            closed = False
            continue
        for sym in al:
            nh = hist + (sym,)
            ex = explore(lambda ch: run_history(cfg, nh, ch), prefix=choices)
            for ch, (canon, info) in ex:
                acc.execs += 1
                acc.choice_points += sum(1 for t in ch.trace[len(choices):] if t[0] > 1)
                if info.get('noop'):
                    continue
                for sig, msg in info['viol']:
                    acc.violation(f"C04:{sig}:{cfg['kind']}", msg, cfg=cfg, choices=ch.choices,
                                  detail={'history': [list(s) for s in nh], 'steps': info['steps']})
                acc.outcome((key, hc, sym, repr(info['steps'][-1:])))
                if canon is None:
                    acc.transition(hc, repr(sym), 'terminal')
                    continue
                hn = acc.state((key, canon))
                acc.transition(hc, repr(sym), hn)
                if hn not in seen:
                    seen[hn] = True
                    frontier.append((nh, ch.choices, hn))
    acc.count('graphs_closed' if closed else 'graphs_depth_capped')
    if not closed and 'depth' not in acc.caps:
        acc.caps.append('depth')
    acc.sample({'cfg': cfg, 'states': len(seen), 'closed': closed}, limit=3)
    return acc

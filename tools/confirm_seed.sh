#!/bin/bash
# usage: tools/confirm_seed.sh C03 1   -- confirm a sub-agent's change in its scratch worktree
# (tests pass with the change, demo fails with it and passes without), then store it under seeded/.
set -u
ID=$1; N=$2
ROOT=${SEEDROOT:-/tmp/seed}
WT=$ROOT/$ID; OUT=$ROOT/${ID}_out
DIFF=$OUT/change$N.diff; DEMO=$OUT/demo$N.py
DEST=/verif/seeded/$ID-$N
[ -f "$DIFF" ] || { echo "no $DIFF"; exit 2; }
cd $WT || exit 2
git checkout -q -- . ; git clean -fdq
base=$(git rev-parse --short HEAD)
git apply "$DIFF" || { echo "APPLY FAILED"; exit 2; }
PYTHONPATH=$WT /venv/bin/python -m pytest -q -p no:cacheprovider --timeout=900 -q > $ROOT/$ID-$N.tests.log 2>&1
trc=$?
# the suite is real-time and flaky under load: re-run only the failed tests, up to 4 times
for attempt in 1 2 3 4; do
  [ $trc -eq 0 ] && break
  failed=$(grep -E "^FAILED " $ROOT/$ID-$N.tests.log | sed -e 's/^FAILED //' -e 's/ - .*//' | tr '\n' ' ')
  [ -z "$failed" ] && break
  echo "re-running flaky candidates: $failed"
  PYTHONPATH=$WT /venv/bin/python -m pytest -q -p no:cacheprovider --timeout=900 -q $failed > $ROOT/$ID-$N.tests.log 2>&1
  trc=$?
done
tests_tail=$(tail -1 $ROOT/$ID-$N.tests.log)
PYTHONPATH=$WT timeout 300 /venv/bin/python $DEMO > $ROOT/$ID-$N.demo_with.log 2>&1; with_rc=$?
git checkout -q -- . ; git clean -fdq
PYTHONPATH=$WT timeout 300 /venv/bin/python $DEMO > $ROOT/$ID-$N.demo_without.log 2>&1; without_rc=$?
echo "$ID-$N base=$base tests_rc=$trc ($tests_tail) demo_with_rc=$with_rc demo_without_rc=$without_rc"
if [ $trc -eq 0 ] && [ $with_rc -ne 0 ] && [ $without_rc -eq 0 ]; then
  mkdir -p $DEST
  cp "$DIFF" $DEST/patch.diff; cp "$DEMO" $DEST/demo.py
  SEEDROOT=$ROOT python3 - "$ID" "$N" "$base" "$tests_tail" "$with_rc" "$without_rc" <<'PY'
import json,sys,re,os
ID,N,base,tests_tail,with_rc,without_rc=sys.argv[1:7]
ROOT=os.environ.get("SEEDROOT","/tmp/seed")
notes=open(f'{ROOT}/{ID}_out/notes.md').read() if os.path.exists(f'{ROOT}/{ID}_out/notes.md') else ''
meta={"property":ID,"change":int(N),"base_commit":base,
 "origin":"independent sub-agent given only the property text and a scratch worktree",
 "confirmed":{"pytest_with_change":tests_tail,"demo_with_change_rc":int(with_rc),"demo_without_change_rc":int(without_rc),
   "commands":[f"cd {ROOT}/{ID} && git apply change{N}.diff && PYTHONPATH={ROOT}/{ID} /venv/bin/python -m pytest -q -p no:cacheprovider --timeout=900 -x -q",
               f"PYTHONPATH={ROOT}/{ID} /venv/bin/python demo{N}.py  (with and without the change)"]},
 "needs_to_manifest":"see notes (excerpt below)","notes_excerpt":notes[:6000],"detected_by":None}
json.dump(meta,open(f'/verif/seeded/{ID}-{N}/meta.json','w'),indent=1)
PY
  echo "STORED $DEST"
else
  echo "NOT CONFIRMED"
fi

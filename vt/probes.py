"""Probe blocks defined on the harness side (no source hooks)."""
from __future__ import annotations

import asyncio

import edzed


class Probe(edzed.SBlock):
    """
    Records every event it receives as (t_us, name, etype, data-dict[, extra]).
    x_log: shared list; x_extra: optional callable returning something to record with it.
    """

    def __init__(self, *args, log, extra=None, retval=None, **kwargs):
        self.log = log
        self._extra = extra
        self._retval = retval
        self.depth = 0
        self.max_depth = 0
        super().__init__(*args, **kwargs)

    def init_regular(self):
        self.set_output(0)

    def _event(self, etype, data):
        self.depth += 1
        self.max_depth = max(self.max_depth, self.depth)
        try:
            t = asyncio.get_running_loop().now_us
            rec = (t, self.name, etype, dict(data))
            if self._extra is not None:
                rec = rec + (self._extra(),)
            self.log.append(rec)
            return self._retval
        finally:
            self.depth -= 1

"""
C08 - every started block is stopped exactly once and nothing outlives the simulation.

Enumeration: circuit composition (catalogue of <= 4 blocks: sync / async-cleanup / main-task
probes, timed FSM, OutputFunc / OutputAsync with stop_data, Repeat, slow async init x 2,
ValuePoll, FuncBlock, chained output blocks) x fault site (block k x phase raising an injected
exception; none or one) x termination cause (shutdown(), supporting task returns / raises,
SIGTERM, 'shutdown' / 'abort' control events built with the documented constructors,
abort(exc), cancelling the task) x instant (before the start, task created, during async
initialisation, running, during async clean-up) x entry point (run_forever / run) x rank
permutations of the blocks (order of the simulator's block sets).
Oracle: per-block start/stop counters and order, task and timer census of the loop when the
simulation task / run() is finished, output-function logs (stop_data last), frozen circuit.
"""
from __future__ import annotations

import asyncio
import itertools
import signal

import edzed

from ..explore import Acc
from ..harness import Sim, Livelock
from ..probes import lblock_class, Fault
from .. import nets

PROPERTY = 'C08'
LEVEL = 'fault_enumeration'
LEVEL_TEXT = ("Exhaustive fault x cause x instant enumeration on the real code under the virtual "
              "loop: 18 circuit compositions x (no fault or one injected exception at every "
              "(probe block, life-cycle phase)) x 9 termination causes x 5 instants x 2 entry "
              "points x rank permutations of the block sets; every execution is judged by "
              "start/stop counters and order, a census of pending tasks and timers when the "
              "simulation is over, the logs of the output functions and the frozen circuit; plus "
              "aborted clean-ups (a second cancellation while stop_async is awaited) under a reduced oracle.")
LEVEL_NOTE = ("Virtual time; SIGTERM is delivered with signal.raise_signal in the worker's main "
              "thread to edzed's real handler; 'pending' = tasks of the loop other than the "
              "driver and live timer handles at the moment run()/run_forever() is finished.")
TECHNIQUE = ("exhaustive fault / termination-cause / instant enumeration on the implementation "
             "(virtual-time schedules, set-order permutations) with census oracles")
RULE = ("a case = (composition, fault site, termination cause, instant, entry point, rank "
        "permutation); outcome = per-block call log + leftovers; distinct = distinct outcomes; "
        "non-trivial = all (each differs in at least one dimension)")
ASSUMPTIONS = [
    "stop_timeout bounds asynchronous clean-up: a stop_async still running at the timeout counts as finished",
    "the documented constructors are Event.abort() and Event.shutdown() (docs/events.rst)",
]

PHASES_SYNC = ['start', 'init_regular', 'event', 'stop']
CAUSES = ['shutdown', 'support-returns', 'support-raises', 'sigterm', 'ctrl-shutdown', 'ctrl-abort',
          'abort-exc', 'cancel', 'fault-only']
INSTANTS = ['before-start', 'task-created', 'async-init', 'running', 'cleanup']


# ------------------------------------------------------------------ compositions

def comp_blocks(comp):
    """-> list of block specs: (name, kind, params)"""
    return {
        'sync2': [('s1', 'sync', {}), ('s2', 'sync', {})],
        'async-stop': [('a1', 'astop', {'astop': 2}), ('s1', 'sync', {}), ('a2', 'astop', {'astop': 1})],
        'async-stop-timeout': [('a1', 'astop', {'astop': None, 'stop_timeout': 3}), ('s1', 'sync', {})],
        'async-stop-timeout2': [('a1', 'astop', {'astop': None, 'stop_timeout': 3}), ('s1', 'sync', {}),
                                ('a2', 'astop', {'astop': None, 'stop_timeout': 2}),
                                ('a3', 'astop', {'astop': 5, 'stop_timeout': 3})],
        'maintask': [('m1', 'maintask', {}), ('s1', 'sync', {})],
        'fsm': [('fsm', 'fsm', {}), ('s1', 'sync', {})],
        'outfunc': [('of', 'outfunc', {}), ('s1', 'sync', {})],
        # a function without arguments and an EMPTY stop_data mapping (still one final call)
        'outfunc0': [('of0', 'outfunc0', {}), ('s1', 'sync', {})],
        'outasync': [('oa', 'outasync', {'mode': 'wait'}), ('s1', 'sync', {}), ('oc', 'outasync', {'mode': 'cancel'})],
        'outasync-start': [('os', 'outasync', {'mode': 'start'}), ('s1', 'sync', {})],
        # the results of the start-mode runs are sent to 's1' (whose handler may be the fault site)
        'outasync-start-chain': [('os', 'outasync', {'mode': 'start', 'next': 's1'}), ('s1', 'sync', {})],
        # results of 'oj' keep arriving at 'og' after og's stop() (og is in its guard time then)
        'outasync-chain': [('oj', 'outasync', {'mode': 'wait', 'next': 'og'}), ('s1', 'sync', {}),
                           ('og', 'outasync', {'mode': 'cancel', 'guard': 2})],
        'repeat': [('rp', 'repeat', {}), ('s1', 'sync', {})],
        'slow-init': [('i1', 'ainit', {'ainit': 5}), ('i2', 'ainit', {'ainit': 7}), ('s1', 'sync', {})],
        'valuepoll': [('vp', 'valuepoll', {}), ('s1', 'sync', {})],
        'cblock': [('s1', 'sync', {}), ('fb', 'funcblock', {})],
        'chain': [('ca', 'outchain', {'next': 'cb'}), ('cb', 'outchain', {'next': None}), ('s1', 'sync', {})],
        'mix': [('a1', 'astop', {'astop': 2}), ('m1', 'maintask', {}), ('fsm', 'fsm', {}), ('i1', 'ainit', {'ainit': 3})],
    }[comp]


COMPS = ['outfunc0', 'sync2', 'async-stop', 'async-stop-timeout', 'async-stop-timeout2', 'maintask', 'fsm', 'outfunc', 'outasync',
         'outasync-start', 'outasync-start-chain', 'outasync-chain', 'repeat', 'slow-init', 'valuepoll', 'cblock', 'chain', 'mix']
PROBE_KINDS = {'sync', 'astop', 'maintask', 'ainit'}


def fault_sites(comp):
    out = [None]
    for name, kind, _p in comp_blocks(comp):
        if kind in PROBE_KINDS:
            phases = list(PHASES_SYNC)
            if kind == 'astop':
                phases.append('stop_async')
            if kind == 'ainit':
                phases.append('init_async')
            if kind == 'maintask':
                phases.append('maintask')
            out += [(name, ph) for ph in phases]
        elif kind == 'funcblock':
            out.append((name, 'calc_output'))
        elif kind in ('outfunc', 'outchain', 'outasync'):
            out.append((name, 'output-function'))
    return out


def has_async_init(comp):
    return any(k == 'ainit' for _n, k, _p in comp_blocks(comp))


def has_async_stop(comp):
    return any(k in ('astop', 'outasync', 'maintask', 'repeat', 'valuepoll') for _n, k, _p in comp_blocks(comp))


def configs(tier):
    out = []
    for comp in COMPS:
        nblk = len(comp_blocks(comp))
        perms = list(itertools.permutations(range(nblk)))
        if comp not in ('chain', 'async-stop', 'mix'):
            perms = [perms[0], perms[-1]]
        for fault in fault_sites(comp):
            for cause in CAUSES:
                if cause == 'fault-only' and fault is None:
                    continue
                for instant in INSTANTS:
                    if instant == 'async-init' and not has_async_init(comp):
                        continue
                    if instant == 'cleanup' and not has_async_stop(comp):
                        continue
                    if cause == 'fault-only' and instant != 'running':
                        continue
                    if cause == 'cancel' and instant == 'cleanup':
                        continue    # a second cancellation aborts the clean-up itself (not a
                                    # termination cause of the statement; run() avoids it too);
                                    # see the 'aborted clean-up' cases below (reduced oracle)
                    for entry in ('run_forever', 'run'):
                        if cause in ('support-returns', 'support-raises', 'sigterm') and entry != 'run':
                            continue
                        if instant in ('before-start', 'task-created') and cause in (
                                'ctrl-shutdown', 'ctrl-abort', 'support-returns', 'support-raises',
                                'sigterm'):
                            continue    # need a running circuit / a started run()
                        if tier == 'quick' and fault is not None and cause not in (
                                'shutdown', 'fault-only', 'cancel', 'ctrl-abort', 'sigterm'):
                            continue
                        ps = perms if (fault is None or tier != 'quick') else perms[:2]
                        for perm in ps:
                            out.append(dict(comp=comp, fault=fault, cause=cause, instant=instant,
                                            entry=entry, perm=perm))
    # the stop is requested, and before the simulation task gets to its clean-up a slow callback
    # keeps the CPU until a timer of the circuit is already due (but has not fired yet)
    for comp in ('fsm', 'mix', 'repeat', 'valuepoll', 'outasync'):
        nblk = len(comp_blocks(comp))
        perms = list(itertools.permutations(range(nblk)))
        for cause in ('shutdown', 'abort-exc', 'ctrl-shutdown', 'sigterm'):
            for entry in ('run_forever', 'run'):
                if cause == 'sigterm' and entry != 'run':
                    continue
                for hold in (8, 9, 20):
                    for perm in (perms[0], perms[-1]):
                        out.append(dict(comp=comp, fault=None, cause=cause, instant='cpu-hold',
                                        entry=entry, perm=perm, hold=hold))
    # aborted clean-up: the simulation task is cancelled a second time while it awaits the
    # stop_async routines. The clean-up of the remaining blocks is lost by definition, so only
    # the clauses that still apply are judged: no block stopped twice, no edzed task left
    # pending a few loop iterations after the task is finished, nothing happens later, frozen.
    for comp in COMPS:
        if not any(k == 'astop' for _n, k, _p in comp_blocks(comp)):
            continue
        nblk = len(comp_blocks(comp))
        for perm in itertools.permutations(range(nblk)):
            out.append(dict(comp=comp, fault=None, cause='cancel', instant='cleanup',
                            entry='run_forever', perm=perm))
    if tier == 'thorough':
        # two injected faults (different sites), a reduced cause / instant set
        for comp in COMPS:
            sites = [f for f in fault_sites(comp) if f is not None]
            nblk = len(comp_blocks(comp))
            perms = list(itertools.permutations(range(nblk)))
            for f1, f2 in itertools.combinations(sites, 2):
                for cause, instant, entry in (('shutdown', 'running', 'run_forever'),
                                              ('fault-only', 'running', 'run'),
                                              ('ctrl-abort', 'running', 'run'),
                                              ('shutdown', 'task-created', 'run_forever'),
                                              ('sigterm', 'running', 'run')):
                    for perm in (perms[0], perms[-1]):
                        out.append(dict(comp=comp, fault=f1, faults=(f1, f2), cause=cause,
                                        instant=instant, entry=entry, perm=perm))
    # termination requested synchronously from inside the simulation task: in a block's start(),
    # in a synchronous initialisation routine, during the first evaluation (an output event)
    for comp in COMPS:
        nblk = len(comp_blocks(comp))
        perms = list(itertools.permutations(range(nblk)))
        perms = [perms[0], perms[-1]]
        for instant in ('in-start', 'sync-init', 'first-eval'):
            for cause in ('ctrl-shutdown', 'ctrl-abort', 'abort-exc', 'abort-cancel'):
                if instant == 'in-start' and cause.startswith('ctrl'):
                    continue
                for entry in ('run_forever', 'run'):
                    for hookpos in ('first', 'last'):
                        for perm in perms:
                            out.append(dict(comp=comp, fault=None, cause=cause, instant=instant,
                                            entry=entry, perm=perm, hookpos=hookpos))
    return out


# ------------------------------------------------------------------ one execution

class TimedFSM(edzed.FSM):
    STATES = ['a', 'b']
    EVENTS = [['go', None, 'b']]
    TIMERS = {'a': (10, edzed.Goto('b')), 'b': (10, edzed.Goto('a'))}


def run_case(cfg, acc):
    comp, fault, cause, instant, entry = cfg['comp'], cfg['fault'], cfg['cause'], cfg['instant'], cfg['entry']
    viol = []
    log = []
    flog = {}      # output-function logs per block
    res = {}
    specs = comp_blocks(comp)
    all_faults = list(cfg.get('faults') or ([fault] if fault is not None else []))
    shutdown_ctor = getattr(edzed.Event, 'shutdown', None)
    if shutdown_ctor is None:
        viol.append(('Event.shutdown-missing',
                     "Event.shutdown() (docs/events.rst) does not exist"))
        if cause == 'ctrl-shutdown':
            return viol
    with Sim(max_iterations=20000) as sim:
        nets.install_rank_hash()
        circuit = sim.circuit
        loop = sim.loop
        blocks = {}
        probes = []

        def ofunc(name, fail):
            def fn(value):
                flog.setdefault(name, []).append(value)
                if fail and value == 'boom':
                    raise Fault('output-function')
                return ('done', value)
            return fn

        def ocoro(name, fail):
            async def co(value):
                flog.setdefault(name, []).append(('begin', value))
                await asyncio.sleep(1)
                if fail and value == 'boom':
                    raise Fault('output-function')
                flog[name].append(('end', value))
                return value
            return co
        def make_blocks():
          for name, kind, params in specs:
              fphases = [f[1] for f in all_faults if f[0] == name]
              fphase = fphases[0] if fphases else None
              bcfg = {}
              for ph in fphases:
                  if ph in ('start', 'init_regular', 'event', 'stop'):
                      bcfg[ph] = ('raise', Fault(f'{name}.{ph}'))
              for special in ('stop_async', 'init_async', 'maintask', 'output-function', 'calc_output'):
                  if special in fphases:
                      fphase = special
              if 'init_regular' not in bcfg:
                  bcfg['init_regular'] = ('set', 0)
              if kind == 'sync':
                  blk = lblock_class()(name, log=log, cfg=bcfg)
                  probes.append(blk)
              elif kind == 'astop':
                  bcfg['astop'] = (params['astop'],
                                   ('raise', Fault(f'{name}.stop_async')) if fphase == 'stop_async' else None)
                  blk = lblock_class(astop=True)(name, log=log, cfg=bcfg,
                                                 stop_timeout=params.get('stop_timeout', 10))
                  probes.append(blk)
              elif kind == 'ainit':
                  bcfg['ainit'] = (params['ainit'] if fphase != 'init_async' else 1,
                                   ('raise', Fault(f'{name}.init_async')) if fphase == 'init_async'
                                   else ('set', 1))
                  del bcfg['init_regular']
                  if fphase == 'init_regular':
                      bcfg['init_regular'] = ('raise', Fault(f'{name}.init_regular'))
                  blk = lblock_class(ainit=True, ifv=True)(name, log=log, cfg=bcfg, init_timeout=10,
                                                           initdef='dflt')
                  probes.append(blk)
              elif kind == 'maintask':
                  bcfg['maintask'] = (2, ('raise', Fault(f'{name}.maintask'))) if fphase == 'maintask' \
                      else (None, None)
                  blk = lblock_class(maintask=True)(name, log=log, cfg=bcfg, stop_timeout=10)
                  probes.append(blk)
              elif kind == 'fsm':
                  blk = TimedFSM(name)
              elif kind == 'outfunc':
                  blk = edzed.OutputFunc(name, func=ofunc(name, fphase == 'output-function'),
                                         on_error=None, stop_data={'value': 'STOP'})
              elif kind == 'outfunc0':
                  blk = edzed.OutputFunc(name, func=lambda _n=name: flog.setdefault(_n, []).append('CALL'),
                                         f_args=(), on_error=None, stop_data={})
              elif kind == 'outchain':
                  nxt = params['next']
                  blk = edzed.OutputFunc(
                      name, func=ofunc(name, fphase == 'output-function'), on_error=None,
                      on_success=edzed.Event(nxt, 'put') if nxt else None,
                      stop_data={'value': f'STOP-{name}'})
              elif kind == 'outasync':
                  okw = {}
                  if params.get('next'):
                      okw['on_success'] = edzed.Event(params['next'], 'put')
                  if params.get('guard'):
                      okw['guard_time'] = params['guard']
                  blk = edzed.OutputAsync(name, coro=ocoro(name, fphase == 'output-function'),
                                          mode=params['mode'], on_error=None,
                                          stop_data={'value': 'STOP'}, stop_timeout=10, **okw)
              elif kind == 'repeat':
                  blk = edzed.Repeat(name, dest='s1', etype='ev', interval=3)
              elif kind == 'valuepoll':
                  blk = edzed.ValuePoll(name, func=lambda: sim.now, interval=2, init_timeout=5,
                                        stop_timeout=10)
              elif kind == 'funcblock':
                  def calc(a, _boom=(fphase == 'calc_output')):
                      if _boom and a == 'boom':
                          raise Fault('calc_output')
                      return a
                  blk = edzed.FuncBlock(name, func=calc).connect('s1')
              blocks[name] = blk
        def make_hook():
            if instant not in ('in-start', 'sync-init', 'first-eval'):
                return
            def do_abort(_blk):
                circuit.abort(Fault('abort') if cause == 'abort-exc'
                              else asyncio.CancelledError('abort-cancel'))
            ctor = {'ctrl-shutdown': shutdown_ctor, 'ctrl-abort': edzed.Event.abort}.get(cause)
            if instant == 'first-eval':
                src = lblock_class()('hooksrc', log=log, cfg={'init_regular': ('set', 1)})
                probes.append(src)
                if ctor is not None:
                    edzed.FuncBlock('hook', func=lambda a: a, on_output=ctor()).connect(src)
                else:
                    def calc(a):
                        do_abort(None)
                        return a
                    edzed.FuncBlock('hook', func=calc).connect(src)
                return
            hcfg = {'init_regular': ('set', 0)}
            kw = {}
            if instant == 'in-start':
                hcfg['start'] = ('call', do_abort)
            elif ctor is not None:
                kw['on_output'] = ctor()
            else:
                hcfg['init_regular'] = ('seq', [('set', 0), ('call', do_abort)])
            probes.append(lblock_class()('hook', log=log, cfg=hcfg, **kw))
        if cfg.get('hookpos') == 'first':
            make_hook()
            make_blocks()
        else:
            make_blocks()
            make_hook()
        nets.set_ranks([blocks[n] for n, _k, _p in specs], cfg['perm'])
        # a sender of control events
        ctl_events = []
        if cause == 'ctrl-shutdown':
            ctl_events = [shutdown_ctor()]
        elif cause == 'ctrl-abort':
            ctl_events = [edzed.Event.abort()]
        ctl = None
        if ctl_events:
            # the documented constructors themselves; an OutputFunc sends on_success only on demand
            ctl = edzed.OutputFunc('ctl', func=lambda value: value, on_success=ctl_events,
                                   on_error=None)

        term = {'requested': False}

        def request_stop():
            """Deliver the termination cause (the non-coroutine part)."""
            term['requested'] = True
            if cause == 'shutdown':
                return 'shutdown'
            if cause == 'abort-exc':
                circuit.abort(Fault('abort'))
            elif cause == 'cancel':
                res['main_task'].cancel()
            elif cause == 'sigterm':
                if callable(signal.getsignal(signal.SIGTERM)):
                    signal.raise_signal(signal.SIGTERM)
                else:
                    # run() is not (or no longer) listening: the default action would kill us
                    res['sigterm_not_caught'] = True
                    circuit.abort(asyncio.CancelledError('harness: SIGTERM handler not installed'))
            elif cause in ('ctrl-shutdown', 'ctrl-abort'):
                try:
                    edzed.ExtEvent(ctl).send(1)
                except BaseException as err:    # pylint: disable=broad-except
                    res['ctl_send_error'] = err
            elif cause in ('support-returns', 'support-raises'):
                support_go.set()
            return None

        support_go = None

        async def support():
            await support_go.wait()
            if cause == 'support-raises':
                raise Fault('supporting task')

        async def slow_support():
            # a second supporting task whose own clean-up after the cancellation takes time
            try:
                await asyncio.get_running_loop().create_future()
            finally:
                await asyncio.sleep(3)      # (the driver notices the end of run() within 1 s)
                res['slow_support_done'] = sim.now

        async def traffic():
            """Make the circuit do something: events to every block incl. the fault trigger."""
            for name, kind, _p in specs:
                blk = blocks[name]
                try:
                    if kind in PROBE_KINDS:
                        edzed.ExtEvent(blk, 'ev').send(5)
                    elif kind in ('outfunc', 'outchain', 'outasync'):
                        edzed.ExtEvent(blk, 'put').send('v1')
                        edzed.ExtEvent(blk, 'put').send('boom')
                        edzed.ExtEvent(blk, 'put').send('v2')
                    elif kind == 'repeat':
                        edzed.ExtEvent(blk, 'ev').send(7)
                    elif kind == 'fsm':
                        edzed.ExtEvent(blk, 'go').send()
                    elif kind == 'funcblock':
                        edzed.ExtEvent(blocks['s1'], 'ev').send('boom')
                except BaseException as err:    # pylint: disable=broad-except
                    res.setdefault('traffic_errors', []).append(repr(err))
            await asyncio.sleep(0)

        async def driver():
            nonlocal support_go
            support_go = asyncio.Event()
            me = asyncio.current_task()
            if instant == 'before-start':
                if cause == 'abort-exc':
                    circuit.abort(Fault('abort'))
                elif cause == 'shutdown':
                    circuit.abort(asyncio.CancelledError('early'))
            if entry == 'run':
                main = asyncio.create_task(edzed.run(support(), slow_support()))
            else:
                main = asyncio.create_task(circuit.run_forever())
            res['main_task'] = main
            if instant in ('before-start', 'task-created'):
                if cause == 'cancel':
                    main.cancel()
                elif instant == 'task-created':
                    if cause == 'abort-exc':
                        circuit.abort(Fault('abort'))
                    elif cause == 'shutdown':
                        asyncio.ensure_future(_quiet(circuit.shutdown()))
            else:
                await asyncio.sleep(0)
                # somebody waits for the initialisation and gives up after half a second (while an
                # asynchronous initialisation, if any, is still in progress)
                impatient = res['impatient'] = asyncio.ensure_future(_quiet(circuit.wait_init()))
                handle = loop.call_later(0.5, impatient.cancel)
                impatient.add_done_callback(lambda _f, _h=handle: _h.cancel())
                if instant == 'async-init':
                    await asyncio.sleep(1)
                    res['in_async_init'] = not main.done() and circuit.error is None
                    if res['in_async_init'] or cause != 'cancel':
                        # (a cancellation during the clean-up caused by an injected fault would
                        # abort the clean-up itself; not a termination cause of the statement)
                        if request_stop() == 'shutdown':
                            await _quiet(circuit.shutdown())
                else:
                    try:
                        await circuit.wait_init()
                        res['init_ok'] = True
                    except BaseException as err:    # pylint: disable=broad-except
                        res['init_ok'] = False
                    if res['init_ok']:
                        await traffic()
                        await asyncio.sleep(1)
                        if instant == 'cpu-hold' and not main.done() and circuit.error is None:
                            # request the stop; the next callback to run holds the CPU
                            if cause == 'shutdown':
                                circuit.abort(asyncio.CancelledError('shutdown'))
                            else:
                                request_stop()
                            loop.call_soon(loop.advance_us, cfg['hold'] * 1_000_000)
                            loop._ready.rotate(1)       # ... before the simulation task resumes
                        if (cause != 'fault-only' and not main.done() and circuit.error is None
                                and instant in INSTANTS):
                            if instant == 'cleanup':
                                # a first, orderly stop; the cause under test arrives during clean-up
                                asyncio.ensure_future(_quiet(circuit.shutdown()))
                                await asyncio.sleep(0.5)
                                res['in_cleanup'] = not main.done()
                            if request_stop() == 'shutdown':
                                await _quiet(circuit.shutdown())
            # wait for the end (bounded)
            for _ in range(200):
                if main.done():
                    break
                await asyncio.sleep(1)
                if cause == 'fault-only' and circuit.error is None and sim.now > 30:
                    break       # the injected fault did not stop the simulation (not fatal)
            res['finished'] = main.done()
            if not main.done():
                res['still_running_error'] = repr(circuit.error)
                await _quiet(circuit.shutdown())
                for _ in range(50):
                    if main.done():
                        break
                    await asyncio.sleep(1)
            res['t_end'] = sim.now
            res['n_log_end'] = len(log)
            res['flog_end'] = {k: list(v) for k, v in flog.items()}
            # census at the moment the simulation is over (the impatient wait_init() caller gets
            # its turn first; if it is still waiting, it gives up now)
            for _ in range(3):
                await asyncio.sleep(0)
            imp = res.pop('impatient', None)
            if imp is not None and not imp.done():
                imp.cancel()
                await asyncio.sleep(0)
            await asyncio.sleep(0)
            tasks = [t for t in asyncio.all_tasks(loop) if not t.done() and t is not me]
            timers = [h for h in loop._scheduled if not h._cancelled]
            res['tasks'] = [t.get_name() + ':' + repr(t.get_coro()) for t in tasks]
            res['timers'] = [repr(h) for h in timers]
            # nothing may happen afterwards
            await asyncio.sleep(60)
            res['late_log'] = log[res['n_log_end']:]
            res['late_flog'] = {k: v[len(res['flog_end'].get(k, [])):] for k, v in flog.items()
                                if len(v) > len(res['flog_end'].get(k, []))}
            # frozen and not restartable (unless the simulation never even began: a task
            # cancelled before its first step has done nothing)
            frozen = []
            if not circuit.is_finalized() and circuit.error is None:
                res['frozen'] = frozen
                res['never_began'] = True
                return
            for what, fn in (('new block', lambda: edzed.Input('late', initdef=0)),
                             ('set_persistent_data', lambda: circuit.set_persistent_data({}))):
                try:
                    fn()
                    frozen.append(f"{what} accepted")
                except edzed.EdzedInvalidState:
                    pass
                except Exception as err:    # pylint: disable=broad-except
                    frozen.append(f"{what}: {err!r}")
            try:
                await circuit.run_forever()
                frozen.append('second run_forever() returned')
            except edzed.EdzedInvalidState:
                pass
            except BaseException as err:    # pylint: disable=broad-except
                frozen.append(f"second run_forever(): {err!r}")
            res['frozen'] = frozen
            try:
                main.exception()
            except BaseException:   # pylint: disable=broad-except
                pass
        try:
            sim.run(driver())
        except Livelock as err:
            viol.append(('never-ends', f"{err}"))
            return viol
        except Exception as err:    # pylint: disable=broad-except
            viol.append(('driver-died', repr(err)))
            return viol
        res['loop_exc'] = list(loop.exc_log)
    viol += judge(cfg, specs, log, flog, res)
    acc.outcome((cfg['comp'], cfg['fault'], cfg.get('faults'), cfg['cause'], cfg['instant'], cfg['entry'], cfg['perm'],
                 tuple((e[1], e[2]) for e in log), tuple(res.get('tasks', ()))))
    return viol


async def _quiet(aw):
    try:
        await aw
    except BaseException:   # pylint: disable=broad-except
        pass


def all_faults_of(cfg):
    return list(cfg.get('faults') or ([cfg['fault']] if cfg['fault'] is not None else []))


def judge(cfg, specs, log, flog, res):
    viol = []
    tag = f"{cfg['comp']} fault={cfg.get('faults') or cfg['fault']} cause={cfg['cause']}@{cfg['instant']} via {cfg['entry']} perm={cfg['perm']}"
    if not res.get('finished'):
        if cfg['cause'] != 'fault-only':
            viol.append(('simulation-not-stopped',
                         f"{tag}: the simulation task was still running 200 s after the stop request "
                         f"(error {res.get('still_running_error')})"))
    # 1. stop() exactly once on exactly the started blocks
    aborted_cleanup = cfg['cause'] == 'cancel' and cfg['instant'] == 'cleanup'
    if aborted_cleanup and not res.get('in_cleanup'):
        viol.append(('harness-instant-missed', f"{tag}: not in the clean-up at the chosen instant"))
    idx = {}
    for k, e in enumerate(log[:res['n_log_end']] + res.get('late_log', [])):
        idx.setdefault((e[1], e[2]), []).append(k)
    probe_names = [n for n, kind, _p in specs if kind in PROBE_KINDS]
    for name in probe_names:
        started = len(idx.get((name, 'started'), []))
        stops = len(idx.get((name, 'stop'), []))
        if started > 1 or len(idx.get((name, 'start'), [])) > 1:
            viol.append(('started-twice', f"{tag}: {name}.start() called {len(idx.get((name, 'start'), []))} times"))
        if aborted_cleanup:
            if stops > started:
                viol.append(('stop-count',
                             f"{tag}: {name}: start() returned {started}x, stop() called {stops}x"))
        elif stops != (1 if started else 0):
            viol.append(('stop-count',
                         f"{tag}: {name}: start() returned {started}x, stop() called {stops}x"))
    # 2. async clean-up first
    sync_stops = [idx[(n, 'stop')][0] for n, kind, _p in specs
                  if kind == 'sync' and (n, 'stop') in idx]
    for name, kind, params in specs:
        if kind not in ('astop', 'maintask') or (name, 'stop') not in idx or aborted_cleanup:
            continue
        k_stop = idx[(name, 'stop')][0]
        if sync_stops and k_stop > min(sync_stops):
            viol.append(('async-block-stopped-late',
                         f"{tag}: {name}.stop() came after the stop() of a block without async clean-up"))
        if kind == 'astop' and (name, 'stop_async') in idx:
            # bounded by stop_timeout, but over (finished, failed or cancelled) before the others
            if (name, 'stop_async_exit') not in idx:
                viol.append(('stop_async-not-awaited',
                             f"{tag}: {name}.stop_async was still running when the simulation ended"))
            elif sync_stops and idx[(name, 'stop_async_exit')][0] > min(sync_stops):
                viol.append(('stop_async-not-awaited',
                             f"{tag}: a block without async clean-up was stopped while "
                             f"{name}.stop_async was still running"))
        if kind == 'astop':
            if (name, 'stop_async') not in idx:
                viol.append(('stop_async-not-called', f"{tag}: {name}: stop() without stop_async()"))
            elif len(idx[(name, 'stop_async')]) > 1:
                viol.append(('stop_async-twice', f"{tag}: {name}"))
            elif (params['astop'] is not None and params['astop'] < params.get('stop_timeout', 10)
                  and (name, 'stop_async') not in all_faults_of(cfg)):
                if (name, 'stop_async_end') not in idx:
                    viol.append(('stop_async-not-awaited',
                                 f"{tag}: {name}.stop_async did not finish (timeout 10 s, needs {params['astop']} s)"))
                elif sync_stops and idx[(name, 'stop_async_end')][0] > min(sync_stops):
                    viol.append(('stop_async-not-awaited',
                                 f"{tag}: a sync block was stopped before {name}.stop_async finished"))
    # 3. nothing outlives the simulation
    if res.get('tasks'):
        viol.append(('task-left-pending', f"{tag}: pending tasks after the end: {res['tasks']}"))
    if res.get('timers') and not aborted_cleanup:
        viol.append(('timer-left-pending', f"{tag}: live timers after the end: {res['timers']}"))
    if res.get('late_log'):
        viol.append(('activity-after-the-end', f"{tag}: {res['late_log'][:4]}"))
    if res.get('late_flog'):
        viol.append(('output-after-the-end', f"{tag}: {res['late_flog']}"))
    # 4. stop_data last
    for name, kind, params in specs:
        if kind in ('outfunc', 'outchain'):
            calls = flog.get(name, [])
            sd = 'STOP' if kind == 'outfunc' else f'STOP-{name}'
            started = res.get('init_ok') or any(True for _ in calls)
            if calls and sd in calls and calls[-1] != sd:
                viol.append((f"stop_data-not-last:{cfg['comp']}",
                             f"{tag}: {name} function calls {calls}: data after its stop_data"))
            if calls.count(sd) > 1:
                viol.append(('stop_data-twice', f"{tag}: {name} calls {calls}"))
            if res.get('init_ok') and res.get('finished') and sd not in calls:
                viol.append(('stop_data-not-delivered', f"{tag}: {name} calls {calls}"))
        if kind == 'outfunc0':
            calls = flog.get(name, [])
            if res.get('init_ok') and res.get('finished') and len(calls) != 1:
                viol.append(('stop_data-not-delivered', f"{tag}: {name} (empty stop_data) was called {len(calls)} "
                             f"times, expected exactly one call - the final one"))
        if kind == 'outasync':
            calls = flog.get(name, [])
            begins = [v for (w, v) in calls if w == 'begin']
            if 'STOP' in begins and begins[-1] != 'STOP':
                viol.append(('stop_data-not-last', f"{tag}: {name} runs {calls}"))
            if begins.count('STOP') > 1:
                viol.append(('stop_data-twice', f"{tag}: {name} runs {calls}"))
            if res.get('init_ok') and res.get('finished') and 'STOP' not in begins:
                viol.append(('stop_data-not-delivered', f"{tag}: {name} runs {calls}"))
            if ('begin', 'STOP') in calls and ('end', 'STOP') not in calls:
                viol.append(('stop_data-not-completed', f"{tag}: {name} runs {calls}"))
    # 5. frozen
    if res.get('frozen'):
        viol.append(('not-frozen-after-stop', f"{tag}: {res['frozen']}"))
    if cfg['instant'] == 'async-init' and not res.get('in_async_init') and not all_faults_of(cfg):
        viol.append(('harness-instant-missed', f"{tag}: not in async init at the chosen instant"))
    return viol


def run_config(cfg):
    acc = Acc()
    viol = run_case(cfg, acc)
    acc.execs += 1
    acc.count('causes:' + cfg['cause'])
    seen = set()
    for sig, msg in viol:
        if sig not in seen:
            seen.add(sig)
            acc.violation(f"C08:{sig}", msg, cfg=cfg)
    acc.sample({'case': cfg}, limit=3)
    return acc

"""
C11 - a block never handles two events at the same time.

All directed event topologies (self-loops, cycles, diamonds) over <= 2 blocks of every kind and
<= 3 blocks of a kind subset, with every edge-kind pattern (on_output / on_every_output /
on_enter / Repeat forward) and, for every edge, a rejecting filter or a conditional event that
resolves to 'no event'.  Every external event sequence up to the bound over (target, {valid,
unknown type, missing parameter}) is sent into a running circuit.  A reference of synchronous
event propagation predicts whether a delivery reaches a block that is still handling an event
(=> the simulation must end with EdzedCircuitError) and otherwise the resulting block states.
After every step every block is probed: it must not be left locked.
"""
from __future__ import annotations

import asyncio
import itertools

import edzed

from ..explore import Acc
from ..harness import Sim, stop, Livelock

PROPERTY = 'C11'
LEVEL = 'model_checking'
LEVEL_TEXT = ("Bounded exhaustive model checking of the real event delivery code: every directed "
              "event topology over <=2 blocks of 12 kinds incl. OutputFunc on_success/on_error (quick) / <=3 blocks (kind subset; "
              "thorough: more) x edge patterns (output, every-output, on_enter, Repeat forward; "
              "one rejecting filter or one 'no event' conditional per edge) x every external "
              "event sequence up to the bound; a reference of synchronous propagation predicts "
              "recursion (simulation must die with EdzedCircuitError) or the resulting states; "
              "after every step every block is probed for a stuck guard. With start-up events not "
              "gated off a second reference (creation order, early initialisation by a pending event, "
              "blocks that initialise by an event of their own) predicts whether the start is refused "
              "and the block states after it.")
LEVEL_NOTE = ("Events generated during start-up are gated off (edge filters pass only once the "
              "circuit runs), so cyclic topologies survive initialisation; the documented "
              "exceptions (chained FSM transition by entry action / zero timer) are part of the "
              "block catalogue; nesting depth is measured in the probe blocks' handlers.")
TECHNIQUE = ("explicit-state / bounded exhaustive exploration of the implementation (all small "
             "event topologies x external sequences) vs. synchronous-propagation reference")
RULE = ("a case = (block kinds, edge set with kinds/filters, external event sequence); outcome = "
        "(case, died/alive, block states); state = (topology, block states); distinct = "
        "distinct outcomes")
ASSUMPTIONS = [
    "probe blocks change their output on every event; FSM kinds toggle; values are unique counters",
    "Repeat intervals are far longer than an execution (no asynchronous re-sends)",
]

ALL_KINDS = ('P', 'I', 'C', 'F', 'G', 'Z', 'R', 'X', 'H', 'M', 'O', 'E')
# O, E: OutputFunc whose function succeeds / fails (edges = on_success / on_error events)
INIT_KINDS = ('P', 'Q', 'I', 'J')     # Q, J: no initialisation of their own (by event only)
ETYPE = {'O': 'put', 'E': 'put', 'M': 'tg', 'H': 'tg', 'Q': 'ev', 'J': 'put', 'P': 'ev', 'I': 'put', 'C': 'inc', 'F': 'tg', 'G': 'tg', 'Z': 'tg', 'R': 'rp', 'X': 'put'}


ERRVAL = 'errval'
UNSET = ('unset',)


class Rec(Exception):
    """reference: a delivery reached a block that is handling an event"""


class Unk(Exception):
    """reference: an event of a type unknown to its destination (reported to all callers)"""


# ------------------------------------------------------------------ configs

def graphs(n):
    pairs = [(i, j) for i in range(n) for j in range(n)]
    for mask in range(1 << len(pairs)):
        yield tuple(p for b, p in enumerate(pairs) if mask >> b & 1)


def patterns(kinds, edges, full):
    """
    Edge attribute patterns: -> list of tuples of (src, dst, ekind, filt).
    ekind in out / every / enter / fwd (Repeat);  filt in none / reject / condnone
    """
    def base(mode):
        out = []
        for (i, j) in edges:
            k = kinds[i]
            if k == 'R':
                ek = 'fwd'
            elif k == 'O':
                ek = 'succ'
            elif k == 'E':
                ek = 'err'
            elif mode == 'enter' and k in 'FGZX':
                ek = 'enter'
            elif mode == 'every':
                ek = 'every'
            else:
                ek = 'out'
            out.append((i, j, ek, 'none'))
        return tuple(out)
    pats = [base('out'), base('every'), base('enter')]
    b = base('out')
    idxs = range(len(edges)) if full else range(min(1, len(edges)))
    for e in idxs:
        for filt in ('reject', 'condnone', 'condnone2', 'unknown'):
            if b[e][2] == 'fwd':
                continue    # a Repeat's forwarding event has no filter / fixed event type
            pats.append(tuple((i, j, ek, filt if x == e else f) for x, (i, j, ek, f) in enumerate(b)))
    seen, out = set(), []
    for p in pats:
        if p not in seen:
            seen.add(p)
            out.append(p)
    return out


def ok_graph(kinds, edges):
    # a Repeat has exactly one destination
    for i, k in enumerate(kinds):
        if k == 'R' and sum(1 for (a, _b) in edges if a == i) != 1:
            return False
    return True


def ext_sequences(kinds, maxlen, variants):
    alpha = []
    for i, k in enumerate(kinds):
        for v in variants:
            if v == 'missing' and k in 'FGZRCHMOE':
                continue
            alpha.append((i, v))
    out = []
    for ln in range(1, maxlen + 1):
        out += list(itertools.product(alpha, repeat=ln))
    return out


def configs(tier):
    out = []
    V3 = ('valid', 'unknown', 'missing')
    for k in ALL_KINDS:
        for edges in graphs(1):
            if ok_graph((k,), edges):
                for pat in patterns((k,), edges, True):
                    out.append(dict(kinds=(k,), edges=pat, seqs=('all', 3, V3)))
    kinds2 = ALL_KINDS
    for ks in itertools.product(kinds2, repeat=2):
        for edges in graphs(2):
            if not edges or not ok_graph(ks, edges):
                continue
            for pat in patterns(ks, edges, True):
                out.append(dict(kinds=ks, edges=pat, seqs=('all', 2, V3)))
    kinds3 = ('P', 'F', 'R') if tier == 'quick' else ('P', 'I', 'F', 'G', 'R')
    for ks in itertools.product(kinds3, repeat=3):
        for edges in graphs(3):
            if len(edges) < 2 or not ok_graph(ks, edges):
                continue
            for pat in patterns(ks, edges, tier != 'quick')[:(4 if tier == 'quick' else None)]:
                out.append(dict(kinds=ks, edges=pat,
                                seqs=('all', 1 if tier == 'quick' else 2, ('valid',))))
    # the same with debugging switched on in every block (the event path differs)
    dbg = [c for c in out if len(c['kinds']) == 1]
    dbg += [c for i, c in enumerate(c for c in out if len(c['kinds']) == 2) if i % 4 == 0]
    out += [dict(c, debug=True) for c in dbg]
    for c in out:
        c['gated'] = True
    # events generated during start-up are NOT gated off: initialisation by events, early
    # initialisation of the destination, loops entered while the circuit initialises
    ung = []
    for n in (1, 2, 3):
        kindsets = itertools.product(INIT_KINDS if n == 3 else INIT_KINDS + ('F', 'C', 'R'), repeat=n)
        for ks in kindsets:
            if not any(k in 'PIFC' for k in ks):
                continue        # somebody must start the traffic
            for edges in graphs(n):
                if not edges or not ok_graph(ks, edges):
                    continue
                if n == 3 and tier == 'quick' and len(edges) > 4:
                    continue
                for pat in patterns(ks, edges, False)[:3 if 'F' in ks else 2]:
                    ung.append(dict(kinds=ks, edges=pat, seqs=('all', 1, ('valid',)), gated=False))
    extra = [dict(kind='notrans-loop', via=via, kinds=('N',), edges=(), seqs=('all', 1, ('valid',)), gated=True)
             for via in ('direct', 'relay', 'relay2')]
    return out + ung + extra


# ------------------------------------------------------------------ reference

class RefNet:
    def __init__(self, cfg, states):
        self.kinds = cfg['kinds']
        self.edges = cfg['edges']
        self.st = list(states)      # per block: P,C -> int; I,X -> value; F,G,Z -> state
        self.active = set()
        self.uniq = 1000
        self.inited = None

    def out_edges(self, i, ekind):
        return [e for e in self.edges if e[0] == i and e[2] == ekind]

    def fire(self, edge, value):
        _i, j, _ek, filt = edge
        if filt == 'reject':
            return
        if filt in ('condnone', 'condnone2'):
            if j in self.active:
                raise Rec(j)
            return
        if filt == 'unknown':
            # refused by the destination with EdzedUnknownEvent (a Repeat just ignores it); the
            # error travels through every handler on the way back to the external sender
            if j in self.active:
                raise Rec(j)
            if self.kinds[j] == 'R':
                return
            raise Unk(j)
        self.deliver(j, value)

    # ---- start-up (events are not gated off): blocks are initialised in creation order; an
    # event reaching a block whose synchronous initialisation has not begun makes it run first
    # (outside the block's "handling an event" window, except that an FSM enters its initial
    # state by an event of its own)
    def init_all(self):
        self.inited = [False] * len(self.kinds)     # initialisation begun (or done)
        for j in range(len(self.kinds)):
            self.init_block(j)
        return [j for j, k in enumerate(self.kinds) if self.st[j] is None]

    def init_block(self, j):
        if self.inited[j]:
            return
        self.inited[j] = True
        k = self.kinds[j]
        if k in 'QJ':
            return
        if k in 'PC':
            self.st[j] = 0
            val = 0
        elif k == 'R':
            self.st[j] = 0
            return
        elif k in 'FI':
            # an FSM enters its initial state, and an Input takes its initdef, by an event of
            # its own: the block is handling an event meanwhile
            if j in self.active:
                raise Rec(j)
            self.active.add(j)
            try:
                self.st[j] = val = 'a' if k == 'F' else 'i0'
                for ek in ('out', 'every', 'enter'):
                    for e in self.out_edges(j, ek):
                        self.fire(e, val)
            finally:
                self.active.discard(j)
            return
        else:
            raise ValueError(k)
        for ek in ('out', 'every'):
            for e in self.out_edges(j, ek):
                self.fire(e, val)

    def deliver(self, j, value):
        if j in self.active:
            raise Rec(j)
        if self.inited is not None and not self.inited[j]:
            self.init_block(j)
        self.active.add(j)
        try:
            k = self.kinds[j]
            changed = True
            if self.st[j] is None:      # first output of a block initialised by this event
                self.st[j] = 0 if k == 'Q' else UNSET
            if k in 'PQ':
                self.st[j] += 1
                val = self.st[j]
            elif k == 'C':
                self.st[j] += 1
                val = self.st[j]
            elif k in 'IJ':
                changed = self.st[j] != value
                self.st[j] = value
                val = value
            elif k == 'X':
                changed = self.st[j] != value
                self.st[j] = value
                val = value
            elif k == 'F':
                self.st[j] = 'b' if self.st[j] == 'a' else 'a'
                val = self.st[j]
            elif k in 'GZ':
                self.st[j] = 'c' if self.st[j] == 'a' else 'a'
                val = self.st[j]
            elif k in 'HM':
                # (M: the entry action requests TWO chained transitions - 'event multiplication')
                # the exit action of the intermediate state sends an event to its own FSM: only
                # the entry action (or a zero timer) may request a chained transition
                raise Rec(j)
            elif k == 'R':
                changed = False
                val = 0
            elif k in 'OE':
                changed = False     # the output of an OutputFunc never changes
                self.st[j] += 1
                val = value if k == 'O' else ERRVAL
            if changed:
                for e in self.out_edges(j, 'out'):
                    self.fire(e, val)
            for e in self.out_edges(j, 'every'):
                self.fire(e, val)
            if k in 'FGZXHM':
                # X (InputExp): every accepted put re-enters state 'valid'
                for e in self.out_edges(j, 'enter'):
                    self.fire(e, val)
            if k == 'R':
                for e in self.out_edges(j, 'fwd'):
                    self.fire(e, value)
            if k in 'OE':
                for e in self.out_edges(j, 'succ' if k == 'O' else 'err'):
                    self.fire(e, val)
        finally:
            self.active.discard(j)


# ------------------------------------------------------------------ real blocks

class PBlock(edzed.SBlock):
    def __init__(self, *args, **kwargs):
        self.n = 0
        self.depth = 0
        self.max_depth = 0
        super().__init__(*args, **kwargs)

    def init_regular(self):
        self.set_output(0)

    def _event_ev(self, *, value, **_data):
        self.depth += 1
        self.max_depth = max(self.max_depth, self.depth)
        try:
            self.n += 1
            self.set_output(self.n)
            return self.n
        finally:
            self.depth -= 1


class QBlock(PBlock):
    """No initialisation of its own: gets its first output from an event."""
    def init_regular(self):
        pass


class MInput(edzed.Input):
    """Input with handler nesting measurement."""
    def __init__(self, *args, **kwargs):
        self.depth = 0
        self.max_depth = 0
        super().__init__(*args, **kwargs)

    def _event_put(self, *, value, **data):
        self.depth += 1
        self.max_depth = max(self.max_depth, self.depth)
        try:
            return super()._event_put(value=value, **data)
        finally:
            self.depth -= 1


class FToggle(edzed.FSM):
    STATES = ['a', 'b']
    EVENTS = [['tg', ['a'], 'b'], ['tg', ['b'], 'a']]


class GChain(edzed.FSM):
    STATES = ['a', 'b', 'c']
    EVENTS = [['tg', ['a'], 'b'], ['tg2', ['b'], 'c'], ['tg', ['c'], 'a']]

    def enter_b(self):
        self.event('tg2')


class HBadExit(edzed.FSM):
    """Chained transition whose intermediate state's EXIT action sends one more event."""
    STATES = ['a', 'b', 'c', 'x']
    EVENTS = [['tg', ['a'], 'b'], ['tg2', ['b'], 'c'], ['tg3', None, 'x'], ['tg', ['c', 'x'], 'a']]

    def enter_b(self):
        self.event('tg2')

    def exit_b(self):
        self.event('tg3')


class MTwoRequests(edzed.FSM):
    """The entry action of the intermediate state requests two chained transitions."""
    STATES = ['a', 'b', 'c']
    EVENTS = [['tg', ['a'], 'b'], ['tg2', None, 'c'], ['tg', ['c', 'b'], 'a']]

    def enter_b(self):
        self.event('tg2')
        self.event('tg2')


class ZChain(edzed.FSM):
    STATES = ['a', 'b', 'c']
    EVENTS = [['tg', ['a'], 'b'], ['tg', ['c'], 'a']]
    TIMERS = {'b': (0, edzed.Goto('c'))}


def etype_of(kinds, edges, j, seen=()):
    """Event type accepted by block j (a Repeat accepts the type it forwards)."""
    if kinds[j] != 'R' or j in seen:
        return ETYPE[kinds[j]]
    dest = [e[1] for e in edges if e[0] == j and e[2] == 'fwd'][0]
    return etype_of(kinds, edges, dest, seen + (j,))


def build(cfg, gate):
    kinds, edges = cfg['kinds'], cfg['edges']
    n = len(kinds)
    names = [f"{k.lower()}{i}" for i, k in enumerate(kinds)]
    sink = PBlock('sink')

    def gatef(data):
        return gate[0]

    def rejectf(data):
        return False

    def mk_event(e):
        _i, j, _ek, filt = e
        et = etype_of(kinds, edges, j)
        if filt == 'condnone':
            et = edzed.EventCond(None, et)     # values are truthy -> 'no event'
        elif filt == 'condnone2':
            et = edzed.EventCond(edzed.EventCond(None, et), et)    # nested, resolves to 'no event' as well
        flt = [gatef] + ([rejectf] if filt == 'reject' else [])
        if filt == 'unknown':
            et = 'vt_no_such_event'
        if e[2] == 'err':
            flt.append(edzed.DataEdit.add(value=ERRVAL))    # on_error events carry no value
        return edzed.Event(names[j], et, efilter=flt)
    blocks = []
    for i, k in enumerate(kinds):
        kw = {}
        outs = [mk_event(e) for e in edges if e[0] == i and e[2] == 'out']
        evs = [mk_event(e) for e in edges if e[0] == i and e[2] == 'every']
        ens = [mk_event(e) for e in edges if e[0] == i and e[2] == 'enter']
        if outs:
            kw['on_output'] = outs
        if evs:
            kw['on_every_output'] = evs
        if k == 'P':
            blk = PBlock(names[i], **kw)
        elif k == 'Q':
            blk = QBlock(names[i], **kw)
        elif k == 'I':
            blk = MInput(names[i], initdef='i0', **kw)
        elif k == 'J':
            blk = MInput(names[i], **kw)
        elif k == 'C':
            blk = edzed.Counter(names[i], **kw)
        elif k == 'F':
            if ens:
                kw['on_enter_a'] = ens
                kw['on_enter_b'] = list(ens)
            blk = FToggle(names[i], **kw)
        elif k in 'GZ':
            if ens:
                kw['on_enter_a'] = ens
                kw['on_enter_b'] = list(ens)
                kw['on_enter_c'] = list(ens)
            blk = (GChain if k == 'G' else ZChain)(names[i], **kw)
        elif k == 'H':
            blk = HBadExit(names[i], **kw)
        elif k == 'M':
            blk = MTwoRequests(names[i], **kw)
        elif k == 'X':
            if ens:
                kw['on_enter_valid'] = ens
            blk = edzed.InputExp(names[i], duration=100000, initdef='x0', **kw)
        elif k in 'OE':
            calls = []

            def func(value, _calls=calls, _fail=(k == 'E')):
                _calls.append(value)
                if _fail:
                    raise ValueError('output function failure (intended)')
                return value
            blk = edzed.OutputFunc(
                names[i], func=func,
                on_success=[mk_event(e) for e in edges if e[0] == i and e[2] == 'succ'],
                on_error=[mk_event(e) for e in edges if e[0] == i and e[2] == 'err'], **kw)
            blk.vt_calls = calls
        elif k == 'R':
            fw = [e for e in edges if e[0] == i and e[2] == 'fwd']
            j = fw[0][1]
            blk = edzed.Repeat(names[i], dest=names[j], etype=etype_of(kinds, edges, i), interval=100000, **kw)
        blocks.append(blk)
    if cfg.get('debug'):
        for blk in blocks + [sink]:
            blk.debug = True
    del sink, n
    return blocks


def read_states(kinds, blocks):
    out = []
    for k, b in zip(kinds, blocks):
        if k in 'PQ':
            out.append(b.n)
        elif k in 'ICJ':
            out.append(b.output)
        elif k == 'X':
            out.append(b.output)
        elif k in 'FGZHM':
            out.append(b.state)
        elif k in 'OE':
            out.append(len(b.vt_calls))
        else:
            out.append(0)
    return out


def run_seq(cfg, seq, acc):
    kinds = cfg['kinds']
    viol = []
    gate = [not cfg['gated']]
    with Sim(max_iterations=3000) as sim:
        blocks = build(cfg, gate)

        def check_depth(when):
            for b in blocks:
                if getattr(b, 'max_depth', 0) > 1:
                    viol.append(('nested-handling',
                                 f"{b.name}: handler nesting depth {b.max_depth} {when}"))

        async def driver():
            exp_start, ref0 = 'ok', None
            if not cfg['gated']:
                ref0 = RefNet(cfg, [None] * len(kinds))
                try:
                    if ref0.init_all():
                        exp_start = 'uninitialized'
                except Rec:
                    exp_start = 'recursion'
            task = asyncio.create_task(sim.circuit.run_forever())
            try:
                await sim.circuit.wait_init()
            except Exception as err:    # pylint: disable=broad-except
                if cfg['gated'] or not isinstance(sim.circuit.error, edzed.EdzedCircuitError):
                    viol.append(('start-failed', f"wait_init() raised {err!r}, "
                                 f"error {sim.circuit.error!r}"))
                elif exp_start == 'ok':
                    viol.append(('start-refused-wrongly',
                                 f"no event reaches a block that is handling an event during "
                                 f"start-up and every block gets initialised, but the start "
                                 f"failed with {sim.circuit.error!r}"))
                else:
                    acc.count('start_refused')
                    acc.count('start_refused_' + exp_start)
                check_depth('during a failed start-up')
                await stop(sim.circuit)
                return
            check_depth('during start-up')
            if exp_start == 'recursion':
                viol.append(('recursion-not-refused',
                             "during start-up an event reaches a block that is still handling an "
                             f"event, but the circuit started; block states {read_states(kinds, blocks)}"))
                await stop(sim.circuit)
                return
            if any(b.output is edzed.UNDEF for b in blocks):
                viol.append(('started-uninitialized', f"outputs {[b.output for b in blocks]}"))
            gate[0] = True
            if ref0 is not None and exp_start == 'ok':
                got0 = read_states(kinds, blocks)
                if list(map(repr, got0)) != list(map(repr, ref0.st)):
                    viol.append(('propagation-mismatch',
                                 f"after start-up: block states {got0}, reference {ref0.st}"))
                    await stop(sim.circuit)
                    return
            ref = RefNet(cfg, read_states(kinds, blocks))
            prev = acc.state((cfg_key(cfg), tuple(map(repr, ref.st))))
            uniq = 1000
            for (tgt, variant) in seq:
                k = kinds[tgt]
                uniq += 1
                kwargs = {'value': uniq}
                et = etype_of(kinds, cfg['edges'], tgt)
                if variant == 'unknown':
                    et = 'no_such_event'
                if variant == 'missing':
                    kwargs = {}
                exp_rec = exp_unk = False
                if variant == 'valid':
                    try:
                        ref.deliver(tgt, uniq)
                    except Rec:
                        exp_rec = True
                    except Unk:
                        exp_unk = True
                raised = None
                nlog = len(sim.logs)
                try:
                    edzed.ExtEvent(blocks[tgt], et).send(**kwargs)
                except BaseException as err:    # pylint: disable=broad-except
                    raised = err
                await sim.loop.idle()
                err = sim.circuit.error
                label = f"external {variant} event #{len(acc.samples)} to {blocks[tgt].name} (seq {seq})"
                if exp_rec:
                    if not isinstance(err, edzed.EdzedCircuitError) or not task.done():
                        viol.append(('recursion-not-refused',
                                     f"{label}: an event reaches a block that is still handling an "
                                     f"event, but circuit.error={err!r}, send() raised {raised!r}, "
                                     f"simulation finished={task.done()}"))
                    acc.count('recursion_refused')
                    return
                if err is not None or task.done():
                    viol.append((f'simulation-stopped:{variant}',
                                 f"{label}: no recursion possible but the simulation ended with "
                                 f"{err!r} (send() raised {raised!r})"))
                    return
                if exp_unk:
                    if not isinstance(raised, edzed.EdzedUnknownEvent):
                        viol.append(('unknown-event-not-reported',
                                     f"{label}: an output event of unknown type was refused on the "
                                     f"way, but send() raised {raised!r}"))
                elif variant == 'valid' and raised is not None:
                    viol.append(('valid-event-raised', f"{label}: send() raised {raised!r}"))
                if variant == 'unknown' and k != 'R' and not isinstance(raised, edzed.EdzedUnknownEvent):
                    viol.append(('unknown-event-not-reported', f"{label}: send() raised {raised!r}"))
                if (variant == 'missing' and not isinstance(raised, Exception)
                        and not any(r.levelno >= 30 for r in sim.logs[nlog:])):
                    viol.append(('missing-parameter-not-reported',
                                 f"{label}: send() raised {raised!r} and nothing was logged"))
                got = read_states(kinds, blocks)
                if list(map(repr, got)) != list(map(repr, ref.st)):
                    viol.append(('propagation-mismatch',
                                 f"{label}: block states {got}, reference {ref.st}"))
                    return
                # nobody may be left locked: an unknown event type is refused with
                # EdzedUnknownEvent by an unlocked block, with EdzedCircuitError by a locked one
                for b in blocks + [sim.circuit.findblock('sink')]:
                    try:
                        edzed.ExtEvent(b, 'vt_probe_unknown').send()
                    except edzed.EdzedUnknownEvent:
                        pass
                    except Exception as perr:   # pylint: disable=broad-except
                        viol.append(('block-left-locked',
                                     f"{label}: afterwards {b.name} refuses events: {perr!r}"))
                        return
                if sim.circuit.error is not None:
                    viol.append(('block-left-locked', f"{label}: probing killed the simulation: "
                                 f"{sim.circuit.error!r}"))
                    return
                st = acc.state((cfg_key(cfg), tuple(map(repr, got))))
                acc.transition(prev, repr((tgt, variant)), st)
                prev = st
            check_depth('while running')
            await stop(sim.circuit)
            del task
        try:
            sim.run(driver())
        except Livelock as err:
            viol.append(('events-circulate-forever',
                         f"seq {seq}: the event loop never went idle ({err}); error={sim.circuit.error!r}"))
        except Exception as err:    # pylint: disable=broad-except
            viol.append(('driver-died', repr(err)))
    acc.execs += 1
    acc.outcome((cfg_key(cfg), seq, tuple(v[0] for v in viol)))
    return viol


def cfg_key(cfg):
    return (cfg['kinds'], cfg['edges'], cfg['gated'], bool(cfg.get('debug')))


class NoTrans(edzed.FSM):
    STATES = ['a', 'b']
    EVENTS = [('tg', 'b', 'a'), ('go', 'a', 'b')]


def run_notrans_loop(cfg, acc):
    """An on_notrans event that finds its way back to the FSM that is still handling the rejected event."""
    viol = []
    res = {}
    with Sim(max_iterations=3000) as sim:
        if cfg['via'] == 'direct':
            kw = dict(on_notrans=edzed.Event('fsm', 'go'))
        else:
            kw = dict(on_notrans=edzed.Event('r1', 'ev', efilter=edzed.DataEdit.add(value=1)))
        fsm = NoTrans('fsm', **kw)
        if cfg['via'] == 'relay':
            PBlock('r1', on_output=edzed.Event('fsm', 'go', efilter=edzed.not_from_undef))
        elif cfg['via'] == 'relay2':
            PBlock('r1', on_output=edzed.Event('r2', 'put', efilter=edzed.not_from_undef))
            MInput('r2', initdef='i0', on_output=edzed.Event('fsm', 'go', efilter=edzed.not_from_undef))

        async def driver():
            task = asyncio.create_task(sim.circuit.run_forever())
            await sim.circuit.wait_init()
            try:
                res['ret'] = edzed.ExtEvent(fsm, 'tg').send()     # no transition from state a
            except BaseException as err:    # pylint: disable=broad-except
                res['raised'] = err
            await sim.loop.idle()
            res['error'] = sim.circuit.error
            res['done'] = task.done()
            res['state'] = fsm.state
            await stop(sim.circuit)
        try:
            sim.run(driver())
        except Livelock as err:
            return [('events-circulate-forever', str(err))]
    acc.execs += 1
    acc.outcome(('notrans-loop', cfg['via'], repr(res.get('error')), res.get('state')))
    acc.state(('notrans-loop', cfg['via']))
    if not isinstance(res.get('error'), edzed.EdzedCircuitError) or not res.get('done'):
        viol.append(('recursion-not-refused',
                     f"on_notrans event returning to its FSM ({cfg['via']}): the FSM is still handling the "
                     f"rejected event, but circuit.error={res.get('error')!r}, simulation finished="
                     f"{res.get('done')}, FSM state {res.get('state')!r}, send() -> {res.get('ret')!r} / {res.get('raised')!r}"))
    else:
        acc.count('recursion_refused')
    return viol


def run_config(cfg):
    acc = Acc()
    if cfg.get('kind') == 'notrans-loop':
        for sig, msg in run_notrans_loop(cfg, acc):
            acc.violation(f"C11:{sig}", msg, cfg=cfg)
        return acc
    _mode, maxlen, variants = cfg['seqs']
    for seq in ext_sequences(cfg['kinds'], maxlen, variants):
        viol = run_seq(cfg, seq, acc)
        for sig, msg in viol[:2]:
            acc.violation(f"C11:{sig}", msg, cfg=cfg, detail={'seq': seq})
        if viol:
            break       # one counterexample per topology is enough
    acc.sample({'kinds': cfg['kinds'], 'edges': cfg['edges'], 'gated': cfg['gated']}, limit=3)
    return acc

#!/venv/bin/python
"""Regenerate MANIFEST.json from the property modules that exist (run from /verif)."""
import importlib, json, os, sys
sys.path.insert(0, os.path.dirname(os.path.dirname(os.path.abspath(__file__))))
props = [json.loads(l) for l in open('properties.jsonl')]
PENDING = {}
try:
    PENDING = json.load(open('tools/not_applicable.json'))
except FileNotFoundError:
    pass
checks, na, served = [], [], []
for p in props:
    pid = p['id']
    path = f"vt/props/{pid.lower()}.py"
    if not os.path.exists(path) or pid in PENDING:
        na.append({"property_id": pid,
                   "reason": PENDING.get(pid, "check not built yet (work in progress)")})
        continue
    mod = importlib.import_module(f"vt.props.{pid.lower()}")
    served.append(pid)
    checks.append({
        "property_id": pid,
        "quick_cmd": f"/venv/bin/python -m vt {pid} --tier quick",
        "thorough_cmd": f"/venv/bin/python -m vt {pid} --tier thorough",
        "evidence_file": f"/verif/evidence/{pid}.json",
        "replay_cmd_template": f"/venv/bin/python -m vt {pid} --replay {{path}}",
        "engine": "vt",
        "level_claimed": {"category": mod.LEVEL, "text": mod.LEVEL_TEXT,
                          "design_ref": f"DESIGN.md section 3, {pid}"},
        "level_note": mod.LEVEL_NOTE,
        "technique": mod.TECHNIQUE,
    })
m = {
    "version": 1,
    "setup_cmd": "/venv/bin/python -m compileall -q vt",
    "hooks": {
        "guard": "EDZED_VERIF",
        "enable": "no source hooks: every seam (event loop, clocks, block-set order, fault "
                  "injection) is a run-time replacement made inside the harness process; "
                  "the guard name is reserved and unused",
        "baseline_off_cmd": "cd /repo && /venv/bin/python -m pytest -ra -q -p no:cacheprovider "
                            "--timeout=900 --continue-on-collection-errors",
        "source_commits": [],
        "add_only": True,
    },
    "engines": [{
        "name": "vt", "path": "/verif/vt", "serves_properties": served,
        "kind_free_text": "hand-written stateless / explicit-state explorer running the real "
                          "edzed code on a virtual asyncio loop (stock CPython _run_once, "
                          "harness-owned time, tie order, clocks, set order, fault injection)",
    }],
    "checks": checks,
    "not_applicable": na,
    "notes": "All checks run the implementation itself (import edzed = /repo working tree, "
             "editable install); exit 0 held, 1 VIOLATION line, 2 harness error. "
             "known_findings.json lists fixed/known findings.",
}
json.dump(m, open('MANIFEST.json', 'w'), indent=1)
print("checks:", served, "pending:", [x['property_id'] for x in na])

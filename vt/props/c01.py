"""
C01 - combinational outputs agree with their inputs whenever the circuit is idle.

All acyclic networks within the bounds are built from the real library blocks, started with
the real simulator on the virtual loop and walked through EVERY transition of the complete
graph on the source-value vectors (every non-empty subset of sources changed in one burst,
in each order), for every rank permutation of the combinational blocks (iteration order of
the simulator's block sets).  After wait_init() and at every quiescent point every block's
output is compared with an independent topological evaluator of the network specification.
"""
from __future__ import annotations

import asyncio
import itertools

import edzed

from ..explore import Acc
from ..harness import Sim, stop
from .. import nets
from ..nets import xor_fn


def same(x, y):
    """The library detects output changes with ==, so True and 1 are the same output."""
    return x == y

PROPERTY = 'C01'
LEVEL = 'model_checking'
LEVEL_TEXT = ("Bounded exhaustive model checking of the real simulator: every acyclic network "
              "within the bounds (<=3 combinational blocks over 2-3 sources; all reference "
              "styles for <=2 blocks; CBlock->SBlock event feedback) is walked through every "
              "transition of the complete graph on its source-value vectors incl. multi-change "
              "bursts in every order, under every rank permutation of the block sets; every "
              "quiescent state is compared with an independent evaluator. Plus chains, fans, ladders "
              "and trees of up to 70 (thorough 130) blocks in three rank orders, checked at the "
              "moment wait_init() returns and at every idle point.")
LEVEL_NOTE = ("Quiescence = the virtual loop has nothing ready (simulator waiting on its queue). "
              "Set iteration order is explored as rank permutations (global orders), not per-step "
              "orders. Comparators are fed directly by a Counter; feedback events are plain 'put' "
              "events (glitch-insensitive), user functions are pure.")
TECHNIQUE = ("explicit-state model checking of the implementation (all small networks x all "
             "input-vector transitions x set orders) vs. independent evaluator")
RULE = ("a case = (network, rank permutation, burst); network enumerated from block kinds x "
        "input slot references; state = (network, source vector, block outputs); transition = "
        "burst; outcome = (network, burst, outputs); distinct = distinct outcomes")
ASSUMPTIONS = [
    "reference evaluator written from docs/cblocks.rst (Not, And, Or, Xor, Override, Compare "
    "with hysteresis, FuncBlock unpack on/off)",
    "Compare start-up exactly at the midpoint is not used (docs do not define it)",
]

BOOL = (False, True)
CNT = (0, 3, 4, 6)
NUM = (0, 1, 2, 3, '')     # truthy values other than True / 1: gates must not rely on 0/1
GATES = ('and', 'or', 'xor')
FN_KINDS = ('fnP', 'fnT', 'fnK', 'fnG', 'fnM')


def fn2(a, b):
    return bool(a) and not b


# ------------------------------------------------------------------ enumeration

def refs(k, j, src_styles, blk_styles, consts, fb):
    out = [('s', i, st) for i in range(k) for st in src_styles]
    out += [('b', i, st) for i in range(j) for st in blk_styles]
    out += [('c', v, w) for (v, w) in consts]
    if fb is not None and j > fb:
        out.append(('f',))
    return out


def block_options(k, j, kinds, src_styles, blk_styles, consts, fb, cnt_idx=None, ordered=True):
    rs = refs(k, j, src_styles, blk_styles, consts, fb)
    out = []
    for kind in kinds:
        if kind == 'not':
            out += [('not', (r,)) for r in rs]
        elif kind in GATES:
            if ordered:
                out += [(kind, (r,)) for r in rs]
                out += [(kind, p) for p in itertools.product(rs, repeat=2)]
            else:
                out += [(kind, p) for p in itertools.combinations_with_replacement(rs, 2)]
        elif kind in ('ovrF', 'ovrN') or kind in FN_KINDS:
            out += [(kind, p) for p in itertools.product(rs, repeat=2)]
        elif kind == 'cmp' and cnt_idx is not None:
            out += [('cmp', (('s', cnt_idx, st),)) for st in ('obj', 'name')]
    return out


def uses(blk, what):
    return any(s[0] == what[0] and (len(what) == 1 or s[1] == what[1]) for s in blk[1])


def configs(tier):
    out = []
    full = ('obj', 'name', 'not')
    consts = [(True, True), (False, False)]
    allkinds = ('not',) + GATES + ('ovrF', 'ovrN') + FN_KINDS + ('cmp',)
    # A: one block, every kind, every reference style; sources: 2 Inputs + 1 Counter
    srcs = ('bool', 'bool', 'cnt')
    for b0 in block_options(2, 0, allkinds, full, full, consts, None, cnt_idx=2):
        out.append(dict(srcs=srcs, blocks=(b0,), fb=None))
    gk = ('not',) + GATES
    # A2: the same one-block networks over non-boolean values (0, 1, 2, 3, '')
    for b0 in block_options(2, 0, allkinds[:-1], ('obj', 'not'), (), consts[:1], None):
        out.append(dict(srcs=('num', 'num'), blocks=(b0,), fb=None))
    # G: a source whose own output event fails (non-fatal) while it changes
    for b0 in block_options(2, 0, gk, ('obj', 'not'), (), (), None, ordered=False):
        for b1 in block_options(2, 1, gk, ('obj',), ('obj',), (), None, ordered=False):
            for srcsx in (('boolx', 'bool'), ('boolx', 'boolx')):
                out.append(dict(srcs=srcsx, blocks=(b0, b1), fb=None))
    # F: feedback into the block's OWN cone: a comparator (or function block) resets the counter
    # it watches, i.e. a sequential block changes twice in one burst
    for variant in ('compare', 'func-edge', 'not-not'):
        for limit in (1, 2, 3):
            for nobs in (0, 2):
                out.append(dict(loopback=(variant, limit, nobs)))
    # B: two blocks, the second refers to the first (every style)
    srcs2 = ('bool', 'bool')
    b0s = block_options(2, 0, allkinds[:-1], ('obj', 'not'), (), [(True, True)], None)
    b1s = [b for b in block_options(2, 1, allkinds[:-1], full, full, consts, None,
                                    ordered=(tier != 'quick'))
           if uses(b, ('b', 0))]
    if tier == 'quick':
        b0s = [b for i, b in enumerate(b0s) if b[0] in ('not', 'xor', 'ovrF', 'fnG')]
    for b0 in b0s:
        for b1 in b1s:
            out.append(dict(srcs=srcs2, blocks=(b0, b1), fb=None))
    # C: three blocks by object, gates, with and without CBlock->SBlock feedback
    gk3 = gk if tier != 'quick' else ('not', 'and', 'xor')
    for fb in (None, 0, 1):
        for b0 in block_options(2, 0, gk3, ('obj',), ('obj',), (), fb, ordered=False):
            for b1 in block_options(2, 1, gk3, ('obj',), ('obj',), (), fb, ordered=False):
                for b2 in block_options(2, 2, gk3, ('obj',), ('obj',), (), fb, ordered=False):
                    if fb is not None and not (uses(b1, ('f',)) or uses(b2, ('f',))):
                        continue
                    out.append(dict(srcs=srcs2, blocks=(b0, b1, b2), fb=fb))
    # D: three sources (bursts of up to three simultaneous changes), two blocks
    srcs3 = ('bool', 'bool', 'bool')
    for b0 in block_options(3, 0, gk, ('obj',), ('obj',), (), None, ordered=False):
        for b1 in block_options(3, 1, gk, ('obj',), ('obj',), (), None, ordered=False):
            if uses(b1, ('b', 0)):
                out.append(dict(srcs=srcs3, blocks=(b0, b1), fb=None))
    # E: comparator downstream mix: Counter -> Compare -> gates, with feedback
    for b1 in block_options(2, 1, gk + ('ovrF',), ('obj', 'not'), ('obj', 'not'), (), None):
        if uses(b1, ('b', 0)):
            out.append(dict(srcs=('bool', 'bool', 'cnt'),
                            blocks=(('cmp', (('s', 2, 'obj'),)), b1), fb=None))
    # T: values that are equal but of different type (0 / 0.0 / False ...) travelling through
    # function blocks into a consumer that tells them apart; local consistency oracle
    for net in ('clamp', 'sum', 'sum3', 'notnot', 'cmpstart'):
        out.append(dict(typed=net))
    # R: a change ripples through n stages CBlock => (event) => SBlock within one burst while a
    # wide adder and the later stages are legitimately re-evaluated after every stage
    for n in (2, 3, 4, 5, 6):
        for order in ('asc', 'desc', 'stride'):
            out.append(dict(ripple=(n, order)))
    # L: large networks (one change makes the simulator evaluate tens of blocks in one go)
    for shape in ('chain', 'fan', 'ladder', 'tree'):
        for n in ((5, 17, 33, 70, 130, 300) if tier == 'quick' else (5, 16, 17, 18, 33, 49, 70, 101, 130, 300, 1100)):
            for order in ('asc', 'desc', 'stride'):
                out.append(dict(large=(shape, n, order)))
    # F: fluttering sources - within one burst a sequential block changes several times (more
    # often than there are blocks in the circuit) before / after / between the single changes
    # of other blocks; `extra` = further sequential blocks that never change
    for nsrc in (2, 3):
        for extra in (0, 2):
            for maxlen in ((7,) if tier == 'quick' else (9,)):
                if nsrc == 3 and tier == 'quick':
                    maxlen = 5
                out.append(dict(flutter=(nsrc, extra, maxlen)))
    if tier == 'thorough':
        # three blocks with inverted-name shortcuts and constants everywhere
        for b0 in block_options(2, 0, gk, ('obj', 'not'), ('obj', 'not'), (), None, ordered=False):
            for b1 in block_options(2, 1, gk, ('obj', 'not'), ('obj', 'not'), (), None, ordered=False):
                for b2 in block_options(2, 2, gk, ('obj', 'not'), ('obj', 'not'), (), None,
                                        ordered=False):
                    if any(s[-1] == 'not' for b in (b0, b1, b2) for s in b[1]):
                        out.append(dict(srcs=srcs2, blocks=(b0, b1, b2), fb=None))
        # three sources, three blocks
        for b0 in block_options(3, 0, gk, ('obj',), ('obj',), (), None, ordered=False):
            for b1 in block_options(3, 1, gk, ('obj',), ('obj',), (), None, ordered=False):
                for b2 in block_options(3, 2, gk, ('obj',), ('obj',), (), None, ordered=False):
                    if uses(b2, ('b', 1)) or uses(b2, ('b', 0)):
                        out.append(dict(srcs=srcs3, blocks=(b0, b1, b2), fb=None))
    return out


# ------------------------------------------------------------------ reference evaluator

class Ref:
    def __init__(self, cfg):
        self.cfg = cfg
        self.cmp_prev = {}      # block index -> previous comparator output

    def slot(self, s, vec, outs, fbval):
        if s[0] == 's':
            v = vec[s[1]]
            return (not v) if s[2] == 'not' else v
        if s[0] == 'b':
            v = outs[s[1]]
            return (not v) if s[2] == 'not' else v
        if s[0] == 'c':
            return s[1]
        return fbval

    def evaluate(self, vec):
        outs = []
        fbval = None
        for j, (kind, slots) in enumerate(self.cfg['blocks']):
            vals = [self.slot(s, vec, outs, fbval) for s in slots]
            if kind == 'not':
                o = not vals[0]
            elif kind == 'and':
                o = all(vals)
            elif kind == 'or':
                o = any(vals)
            elif kind == 'xor':
                o = xor_fn(vals)
            elif kind == 'ovrF':
                o = vals[0] if vals[1] == False else vals[1]    # noqa: E712  pylint: disable=singleton-comparison
            elif kind == 'ovrN':
                o = vals[0] if vals[1] == None else vals[1]     # noqa: E711  pylint: disable=singleton-comparison
            elif kind in FN_KINDS:
                o = fn2(vals[0], vals[1])
            elif kind == 'cmp':
                prev = self.cmp_prev.get(j)
                x = vals[0]
                if prev is None:
                    o = x >= 3.5          # closer to high (5) than to low (2)
                else:
                    o = x >= (2 if prev else 5)
                self.cmp_prev[j] = o
            outs.append(o)
            if self.cfg['fb'] == j:
                fbval = o
        return outs, fbval


# ------------------------------------------------------------------ build and run

def build(cfg, vec0):
    nets.install_rank_hash()
    srcs = []
    for i, (kind, v) in enumerate(zip(cfg['srcs'], vec0)):
        if kind in ('bool', 'num'):
            srcs.append(edzed.Input(f's{i}', initdef=v))
        elif kind == 'boolx':
            # its output event fails (unknown event type: reported to the sender only, the
            # simulation goes on) - the change of the output must be evaluated nevertheless
            if 'sinkx' not in edzed.get_circuit()._blocks:
                edzed.Input('sinkx', initdef=0)
            srcs.append(edzed.Input(f's{i}', initdef=v, on_output=[
                edzed.Event('sinkx', 'put', efilter=edzed.not_from_undef),
                edzed.Event('sinkx', 'no_such_event', efilter=edzed.not_from_undef)],
                on_every_output=edzed.Event('sinkx', 'no_such_event', efilter=edzed.not_from_undef)))
        else:
            srcs.append(edzed.Counter(f's{i}', initdef=v))
    fb = edzed.Input('fb', initdef='fb-init') if cfg['fb'] is not None else None
    blocks = []

    def mk(s):
        if s[0] == 's':
            return srcs[s[1]] if s[2] == 'obj' else f's{s[1]}' if s[2] == 'name' else f'_not_s{s[1]}'
        if s[0] == 'b':
            return blocks[s[1]] if s[2] == 'obj' else f'b{s[1]}' if s[2] == 'name' else f'_not_b{s[1]}'
        if s[0] == 'c':
            return edzed.Const(s[1]) if s[2] else s[1]
        return fb
    for j, (kind, slots) in enumerate(cfg['blocks']):
        name = f'b{j}'
        kw = {}
        if cfg['fb'] == j:
            kw['on_output'] = edzed.Event(fb, 'put')
        ins = [mk(s) for s in slots]
        if kind == 'not':
            blk = edzed.Not(name, **kw).connect(*ins)
        elif kind == 'and':
            blk = edzed.And(name, **kw).connect(*ins)
        elif kind == 'or':
            blk = edzed.Or(name, **kw).connect(*ins)
        elif kind == 'xor':
            blk = edzed.Xor(name, **kw).connect(*ins)
        elif kind == 'ovrF':
            blk = edzed.Override(name, null_value=False, **kw).connect(input=ins[0], override=ins[1])
        elif kind == 'ovrN':
            blk = edzed.Override(name, **kw).connect(input=ins[0], override=ins[1])
        elif kind == 'fnP':
            blk = edzed.FuncBlock(name, func=fn2, **kw).connect(*ins)
        elif kind == 'fnT':
            blk = edzed.FuncBlock(name, func=lambda t: fn2(t[0], t[-1]), unpack=False,
                                  **kw).connect(*ins)
        elif kind == 'fnK':
            blk = edzed.FuncBlock(name, func=lambda x, y: fn2(x, y), **kw).connect(
                y=ins[1], x=ins[0])
        elif kind == 'fnG':
            blk = edzed.FuncBlock(name, func=lambda g: fn2(g[0], g[1]), **kw).connect(g=ins)
        elif kind == 'fnM':
            blk = edzed.FuncBlock(name, func=lambda a, y: fn2(a, y), **kw).connect(ins[0], y=ins[1])
        elif kind == 'cmp':
            blk = edzed.Compare(name, low=2, high=5, **kw).connect(*ins)
        else:
            raise ValueError(kind)
        blocks.append(blk)
    return srcs, blocks, fb


def domains(cfg):
    return [BOOL if k in ('bool', 'boolx') else NUM if k == 'num' else CNT for k in cfg['srcs']]


_PLANS = {}


def plan_for(cfg):
    key = cfg['srcs']
    if key not in _PLANS:
        _PLANS[key] = nets.all_bursts(domains(cfg))
    return _PLANS[key]


def run_network(cfg, perm, acc):
    vec0, plan = plan_for(cfg)
    ref = Ref(cfg)
    viol = []
    with Sim() as sim:
        srcs, blocks, fb = build(cfg, vec0)
        nets.set_ranks(blocks, perm)
        senders = [edzed.ExtEvent(s, 'put') for s in srcs]

        def check(vec, label):
            exp, fbval = ref.evaluate(vec)
            got = [b.output for b in blocks]
            for j, (g, e) in enumerate(zip(got, exp)):
                if not same(g, e):
                    viol.append(('output-mismatch:' + cfg['blocks'][j][0],
                                 f"{label}: sources {vec}: block b{j} {cfg['blocks'][j]} output "
                                 f"{g!r}, expected {e!r} (all outputs {got}, expected {exp})"))
                    break
            if fb is not None and not same(fb.output, fbval):
                viol.append(('feedback-mismatch',
                             f"{label}: sources {vec}: feedback Input holds {fb.output!r}, "
                             f"block b{cfg['fb']} outputs {fbval!r}"))
            for name, blk in sim.circuit._blocks.items():
                if name.startswith('_not_'):
                    tgt = sim.circuit.findblock(name[5:])
                    if not same(blk.output, not tgt.output):
                        viol.append(('inverter-shortcut',
                                     f"{label}: {name} outputs {blk.output!r} while {name[5:]} "
                                     f"outputs {tgt.output!r}"))
            return tuple(map(repr, got))

        async def driver():
            task = asyncio.create_task(sim.circuit.run_forever())
            try:
                await sim.circuit.wait_init()
            except Exception as err:    # pylint: disable=broad-except
                viol.append(('start-failed', f"wait_init() raised {err!r}; error={sim.circuit.error!r}"))
                await stop(sim.circuit)
                return
            got = check(vec0, 'after wait_init()')
            prev = acc.state((cfg_key(cfg), vec0, got))
            await sim.loop.idle()
            check2 = [b.output for b in blocks]
            if tuple(map(repr, check2)) != got:
                viol.append(('changed-after-init', f"outputs changed after wait_init(): {got} -> {check2}"))
            for (frm, burst) in plan:
                vec = list(frm)
                for i, v in burst:
                    try:
                        senders[i].send(v)
                    except edzed.EdzedUnknownEvent:
                        if cfg['srcs'][i] != 'boolx':
                            raise
                    vec[i] = v
                await sim.loop.idle()
                acc.count('bursts')
                if sim.circuit.error is not None or task.done():
                    viol.append(('simulation-died',
                                 f"burst {burst} from {frm}: circuit error {sim.circuit.error!r}"))
                    break
                got = check(tuple(vec), f"after burst {burst} from {frm}")
                st = acc.state((cfg_key(cfg), tuple(vec), got))
                acc.transition(prev, repr(burst), st)
                acc.outcome((cfg_key(cfg), frm, tuple(burst), got))
                prev = st
                if viol:
                    break
            await stop(sim.circuit)
            del task
        sim.run(driver())
        if sim.loop.exc_log:
            viol.append(('loop-exception', str(sim.loop.exc_log[:2])))
    acc.execs += 1
    return viol


def run_loopback(cfg, acc):
    from ..stategraph import bfs
    variant, limit, nobs = cfg['loopback']
    ops = [('inc', None), ('inc', 2), ('put', 1), ('put', 0), ('put', limit + 1), ('put', limit)]
    alphabet = [(o,) for o in ops] + [(o1, o2) for o1 in ops[:3] for o2 in ops]

    def ref_settle(cnt, full):
        for _ in range(10):
            new = cnt >= limit
            if new == full:
                break
            full = new
            if full:
                cnt = 0
        return cnt, full

    def build_net():
        nets.install_rank_hash()
        cnt = edzed.Counter('cnt')
        cbs = []
        if variant == 'compare':
            top = edzed.Compare('full', low=limit, high=limit,
                                on_output=edzed.Event(cnt, edzed.EventCond('reset', None))).connect(cnt)
            cbs.append(top)
        elif variant == 'func-edge':
            top = edzed.FuncBlock('full', func=lambda c: c >= limit, on_output=edzed.Event(
                cnt, 'put', efilter=[edzed.Edge(rise=True), edzed.DataEdit.add(value=0)])).connect(cnt)
            cbs.append(top)
        else:
            c0 = edzed.Compare('ge', low=limit, high=limit).connect(cnt)
            n1 = edzed.Not('n1').connect(c0)
            top = edzed.Not('full', on_output=edzed.Event(cnt, edzed.EventCond('reset', None))).connect(n1)
            cbs += [c0, n1, top]
        obs = []
        if nobs:
            obs.append(edzed.Not('o1').connect(top))
            obs.append(edzed.FuncBlock('o2', func=lambda c, f: (c, f)).connect(cnt, top))
        return cnt, top, cbs + obs, obs

    def run_perm(perm):
        def run(hist):
            viol = []
            with Sim() as sim:
                cnt, top, cbs, obs = build_net()
                nets.set_ranks(cbs, perm)
                st = {}

                async def driver():
                    task = asyncio.create_task(sim.circuit.run_forever())
                    await sim.circuit.wait_init()
                    await sim.loop.idle()
                    rc, rf = ref_settle(0, False)
                    for burst in hist:
                        for op, arg in burst:
                            kw = {}
                            if op == 'inc' and arg is not None:
                                kw['amount'] = arg
                            if op == 'put':
                                kw['value'] = arg
                            edzed.ExtEvent(cnt, op).send(**kw)
                            rc = rc + (arg or 1) if op == 'inc' else arg
                        await sim.loop.idle()
                        rc, rf = ref_settle(rc, rf)
                        if sim.circuit.error is not None:
                            viol.append(('simulation-died', f"{sim.circuit.error!r}"))
                            break
                        got = (cnt.output, top.output)
                        if got != (rc, rf):
                            viol.append(('own-cone-feedback',
                                         f"{cfg['loopback']} rank order {perm}, bursts {list(hist)}: "
                                         f"idle with counter={got[0]}, comparator={got[1]!r}; "
                                         f"expected counter={rc}, comparator={rf!r}"))
                            break
                        if obs and (obs[0].output is not (not rf) or obs[1].output != (rc, rf)):
                            viol.append(('own-cone-feedback',
                                         f"{cfg['loopback']} rank order {perm}, bursts {list(hist)}: "
                                         f"observers {[o.output for o in obs]} with counter={rc}, "
                                         f"comparator={rf!r}"))
                            break
                    st['canon'] = (cfg['loopback'], perm, cnt.output, tuple(b.output for b in cbs))
                    await stop(sim.circuit)
                    del task
                sim.run(driver())
            return (None if viol else st['canon']), viol
        return run
    ncb = {'compare': 1, 'func-edge': 1, 'not-not': 3}[variant] + nobs
    perms = list(itertools.permutations(range(ncb)))
    if len(perms) > 24:
        perms = perms[::5]
    for perm in perms:
        def on_step(hist, hc, sym, canon, info):
            acc.outcome((cfg['loopback'], perm, hc, sym, canon))
            for sig, msg in info:
                acc.violation(f"C01:{sig}", msg, cfg=cfg, detail={'history': list(hist)})
        res = bfs(run_perm(perm), alphabet, acc, max_depth=6, on_step=on_step)
        acc.count('loopback_graphs_closed' if res['closed'] else 'loopback_graphs_open')
    acc.sample({'loopback': cfg['loopback'], 'bursts': len(alphabet)}, limit=2)
    return acc


def cfg_key(cfg):
    return (cfg['srcs'], cfg['blocks'], cfg['fb'])


def run_typed(cfg, acc):
    """
    p computes a number from the sources, q = repr(p), r = [p] (unpacked group).  Oracle: every
    block's output equals its function applied to the CURRENT outputs of its input blocks
    (compared with ==; q and r compare the representation, i.e. they tell 0 from 0.0).
    """
    net = cfg['typed']
    viol = []
    if net == 'notnot':
        return run_notnot(acc)
    if net == 'cmpstart':
        return run_cmpstart(acc)
    doms = {'clamp': [(-1, 0, 1, 0.0, True, -2.5)],
            'sum': [(0, 1, 2), (0, -1.0, 1.0, -2)],
            'sum3': [(0, 1), (0, -1.0), (0.0, 1, False)]}[net]
    fn = {'clamp': lambda a: max(a, 0.0), 'sum': lambda a, b: a + b, 'sum3': lambda a, b, c: a + b + c}[net]
    first, plan = nets.all_bursts(doms)
    for perm in itertools.permutations(range(3)):
        with Sim() as sim:
            srcs = [edzed.Input(f's{i}', initdef=v) for i, v in enumerate(first)]
            p = edzed.FuncBlock('p', func=fn).connect(*srcs)
            q = edzed.FuncBlock('q', func=repr).connect(p)
            r = edzed.FuncBlock('r', func=lambda g: [repr(x) for x in g], unpack=False).connect(p, srcs[0])
            nets.set_ranks([p, q, r], perm)
            senders = [edzed.ExtEvent(x, 'put') for x in srcs]

            def check(label):
                exp_p = fn(*[x.output for x in srcs])
                ok = True
                if not p.output == exp_p:
                    viol.append(('output-mismatch:typed', f"{net} {label}: p outputs {p.output!r}, its function gives {exp_p!r}"))
                    ok = False
                if q.output != repr(p.output):
                    viol.append(('output-mismatch:typed',
                                 f"{net} {label}: q = repr(p) outputs {q.output!r} while p outputs {p.output!r}"))
                    ok = False
                exp_r = [repr(p.output), repr(srcs[0].output)]
                if r.output != exp_r:
                    viol.append(('output-mismatch:typed',
                                 f"{net} {label}: r outputs {r.output!r}, its inputs give {exp_r!r}"))
                    ok = False
                return ok

            async def driver():
                task = asyncio.create_task(sim.circuit.run_forever())
                try:
                    await sim.circuit.wait_init()
                except Exception as err:    # pylint: disable=broad-except
                    viol.append(('start-failed', repr(err)))
                    await stop(sim.circuit)
                    return
                check('after wait_init()')
                prev = acc.state(('typed', net, first))
                for frm, burst in plan:
                    vec = list(frm)
                    for i, v in burst:
                        senders[i].send(v)
                        vec[i] = v
                    await sim.loop.idle()
                    acc.count('bursts')
                    if sim.circuit.error is not None:
                        viol.append(('simulation-died', repr(sim.circuit.error)))
                        break
                    if not check(f"rank order {perm}, after burst {burst} from {frm}"):
                        break
                    st = acc.state(('typed', net, tuple(repr(x.output) for x in srcs), repr(p.output)))
                    acc.transition(prev, repr(burst), st)
                    acc.outcome(('typed', net, frm, tuple(burst), repr(p.output), q.output))
                    prev = st
                await stop(sim.circuit)
                del task
            sim.run(driver())
        acc.execs += 1
        if viol:
            break
    return viol


def run_cmpstart(acc):
    """
    Compare started at every value around its thresholds (incl. low == high, where the value
    equal to the threshold is 'value >= high'), then walked through every other value.
    """
    viol = []
    vals = (0, 2, 3, 3.5, 4, 5, 6)
    for low, high in ((3, 3), (2, 5), (2, 4), (3.5, 3.5)):
        for start in vals:
            if low < high and start == (low + high) / 2:
                continue        # exactly in the middle of the zone: the documentation does not say
            with Sim() as sim:
                src = edzed.Input('src', initdef=start)
                cmp_ = edzed.Compare('cmp', low=low, high=high).connect(src)
                res = []

                async def driver():
                    task = asyncio.create_task(sim.circuit.run_forever())
                    await sim.circuit.wait_init()
                    if start >= high:
                        exp = True
                    elif start < low:
                        exp = False
                    else:
                        exp = (high - start) < (start - low)
                    res.append((start, cmp_.output, exp))
                    for v in vals + tuple(reversed(vals)):
                        edzed.ExtEvent(src).send(v)
                        await sim.loop.idle()
                        exp = True if v >= high else False if v < low else exp
                        res.append((v, cmp_.output, exp))
                    await stop(sim.circuit)
                    del task
                sim.run(driver())
            acc.execs += 1
            acc.outcome(('cmpstart', low, high, start, tuple(r[1] for r in res)))
            acc.state(('cmpstart', low, high, start))
            bad = [r for r in res if r[1] is not r[2]]
            if bad:
                viol.append(('output-mismatch:cmp', f"Compare(low={low}, high={high}) started at {start}: "
                             f"(input, output, expected) = {bad[0]} (whole walk: {res})"))
                return viol
    return viol


def run_notnot(acc):
    """
    The shortcut '_not_n' of an explicit Not block n fed by non-boolean values, read by consumers
    that do not reduce their input to a truth value: _not_n outputs `not n.output`, a bool.
    """
    viol = []
    vals = (0, 3, '', 'x', True, False, 2.5, None, (), (0,))
    for order in ('consumer-first', 'not-first'):
        with Sim() as sim:
            a = edzed.Input('a', initdef=vals[0])

            def mk_cons():
                return (edzed.FuncBlock('ident', func=lambda v: v).connect('_not_n'),
                        edzed.FuncBlock('rep', func=repr).connect('_not_n'),
                        edzed.Override('ovr', null_value='null').connect(input='_not_n', override=edzed.Const('null')))
            if order == 'consumer-first':
                cons = mk_cons()
                n = edzed.Not('n').connect(a)
            else:
                n = edzed.Not('n').connect(a)
                cons = mk_cons()

            async def driver():
                task = asyncio.create_task(sim.circuit.run_forever())
                try:
                    await sim.circuit.wait_init()
                except Exception as err:    # pylint: disable=broad-except
                    viol.append(('start-failed', repr(err)))
                    await stop(sim.circuit)
                    return
                prev = acc.state(('notnot', order, repr(vals[0])))
                for v in vals[1:] + vals[:1]:
                    exp = not (not a.output)
                    got = (n.output, cons[0].output, cons[1].output, cons[2].output)
                    want = (not a.output, exp, repr(exp), exp)
                    if got != want or any(type(x) is not type(y) for x, y in zip(got, want)):
                        viol.append(('inverter-shortcut', f"{order}: a={a.output!r}: (n, ident(_not_n), "
                                     f"repr(_not_n), Override(_not_n)) = {got!r}, expected {want!r}"))
                        break
                    edzed.ExtEvent(a).send(v)
                    await sim.loop.idle()
                    st = acc.state(('notnot', order, repr(v)))
                    acc.transition(prev, repr(v), st)
                    acc.outcome(('notnot', order, repr(v), repr(cons[0].output)))
                    prev = st
                await stop(sim.circuit)
                del task
            sim.run(driver())
        acc.execs += 1
        if viol:
            break
    return viol


def run_ripple(cfg, acc):
    """s0 -> f1 =put=> s1 -> f2 =put=> s2 ... ; x = sum(s1..sn); f_k (k >= 2) also reads x and f_(k-1)."""
    n, order = cfg['ripple']
    viol = []
    with Sim() as sim:
        ss = [edzed.Input(f's{k}', initdef=0) for k in range(n + 1)]
        x = edzed.FuncBlock('x', func=lambda *v: sum(v)).connect(*ss[1:])
        fs = [None, edzed.FuncBlock('f1', func=lambda a, *_o: a, on_output=edzed.Event(ss[1])).connect(ss[0])]
        for k in range(2, n + 1):
            fs.append(edzed.FuncBlock(f'f{k}', func=lambda a, *_o: a,
                                      on_output=edzed.Event(ss[k])).connect(ss[k - 1], x, fs[k - 1]))
        cbs = [x] + fs[1:]
        m = len(cbs)
        perm = {'asc': list(range(m)), 'desc': list(range(m - 1, -1, -1)),
                'stride': sorted(range(m), key=lambda i: (i * 3) % m if m % 3 else (i * 2) % m)}[order]
        nets.set_ranks(cbs, perm)

        def check(label, value):
            if x.output != sum(b.output for b in ss[1:]):
                viol.append(('output-mismatch:ripple', f"n={n} {order} {label}: x outputs {x.output!r}, its "
                             f"inputs {[b.output for b in ss[1:]]}"))
            for k in range(1, n + 1):
                if fs[k].output != ss[k - 1].output:
                    viol.append(('output-mismatch:ripple', f"n={n} {order} {label}: f{k} outputs {fs[k].output!r}, "
                                 f"its input s{k - 1} outputs {ss[k - 1].output!r}"))
                    break
            if value is not None and x.output != n * value:
                viol.append(('output-mismatch:ripple', f"n={n} {order} {label}: x outputs {x.output!r}, expected {n * value}"))
            return not viol

        async def driver():
            task = asyncio.create_task(sim.circuit.run_forever())
            try:
                await sim.circuit.wait_init()
            except Exception as err:    # pylint: disable=broad-except
                viol.append(('start-failed', repr(err)))
                await stop(sim.circuit)
                return
            check('after wait_init()', 0)
            prev = acc.state(('ripple', n, order, 0))
            for value in (1, 0, 5, 5.0, 2):
                edzed.ExtEvent(ss[0]).send(value)
                await sim.loop.idle()
                acc.count('bursts')
                if sim.circuit.error is not None or task.done():
                    viol.append(('simulation-died', f"ripple n={n} {order}, s0={value}: {sim.circuit.error!r}"))
                    break
                if not check(f"s0={value}", value):
                    break
                st = acc.state(('ripple', n, order, value))
                acc.transition(prev, repr(value), st)
                prev = st
            await stop(sim.circuit)
            del task
        sim.run(driver())
    acc.execs += 1
    acc.outcome(('ripple', n, order, tuple(v[0] for v in viol)))
    return viol


def run_large(cfg, acc):
    """
    chain: b[i] = not b[i-1];  fan: b[i] = xor(a, b) / and(a, b) / or(a, b) by i % 3;
    ladder: b[i] = xor(b[i-1], a for i = n//2, else a constant), b[0] = xor(b, True);  tree: b[i] = xor(b[(i-1)//2], b[i-1]).
    Outputs are compared with the reference at the moment wait_init() returns and whenever the
    loop is idle after a burst.
    """
    shape, n, order = cfg['large']
    viol = []

    def ref(a, b):
        out = []
        for i in range(n):
            if shape == 'chain':
                v = not (out[i - 1] if i else a)
            elif shape == 'fan':
                v = (nets.xor_fn([a, b]), bool(a and b), bool(a or b))[i % 3]
            elif shape == 'ladder':
                v = nets.xor_fn([out[i - 1] if i else b, a if i == n // 2 else not i % 2])
            else:
                v = nets.xor_fn([out[(i - 1) // 2], out[i - 1]]) if i else nets.xor_fn([a, b])
            out.append(v)
        return out
    with Sim() as sim:
        ia = edzed.Input('a', initdef=False)
        ib = edzed.Input('b', initdef=True)
        blocks = []
        for i in range(n):
            if shape == 'chain':
                blk = edzed.Not(f'b{i}').connect(blocks[i - 1] if i else ia)
            elif shape == 'fan':
                blk = (edzed.Xor, edzed.And, edzed.Or)[i % 3](f'b{i}').connect(ia, ib)
            elif shape == 'ladder':
                # (a change must reach a block along a few paths only, or the simulator's work
                # bound declares the network unstable - see C10)
                blk = edzed.Xor(f'b{i}').connect(blocks[i - 1] if i else ib,
                                                ia if i == n // 2 else not i % 2)
            else:
                blk = (edzed.Xor(f'b{i}').connect(blocks[(i - 1) // 2], blocks[i - 1]) if i
                       else edzed.Xor(f'b{i}').connect(ia, ib))
            blocks.append(blk)
        perm = {'asc': list(range(n)), 'desc': list(range(n - 1, -1, -1)),
                'stride': sorted(range(n), key=lambda i: (i * 7) % n if n % 7 else (i * 5) % n)}[order]
        nets.set_ranks(blocks, perm)
        sa, sb = edzed.ExtEvent(ia, 'put'), edzed.ExtEvent(ib, 'put')

        def check(a, b, label):
            exp = ref(a, b)
            got = [blk.output for blk in blocks]
            bad = [i for i in range(n) if not same(got[i], exp[i])]
            if bad:
                viol.append((f'output-mismatch:large-{shape}',
                             f"{label}: a={a} b={b}: {len(bad)} of {n} blocks differ from their "
                             f"function, first b{bad[0]}: {got[bad[0]]!r}, expected {exp[bad[0]]!r}"))
            return not bad

        async def driver():
            task = asyncio.create_task(sim.circuit.run_forever())
            try:
                await sim.circuit.wait_init()
            except Exception as err:    # pylint: disable=broad-except
                viol.append(('start-failed', f"wait_init() raised {err!r}; error={sim.circuit.error!r}"))
                await stop(sim.circuit)
                return
            check(False, True, 'at the moment wait_init() returned')
            a, b = False, True
            prev = acc.state((cfg['large'], a, b))
            for burst in ('a', 'b', 'ab', 'ba', 'a', 'ab', 'b', 'ba'):
                for ch in burst:
                    if ch == 'a':
                        a = not a
                        sa.send(a)
                    else:
                        b = not b
                        sb.send(b)
                await sim.loop.idle()
                acc.count('bursts')
                if sim.circuit.error is not None or task.done():
                    viol.append(('simulation-died', f"burst {burst}: {sim.circuit.error!r}"))
                    break
                if not check(a, b, f"idle after burst {burst!r}"):
                    break
                st = acc.state((cfg['large'], a, b))
                acc.transition(prev, burst, st)
                prev = st
            await stop(sim.circuit)
            del task
        sim.run(driver())
    acc.execs += 1
    acc.outcome((cfg['large'], tuple(v[0] for v in viol)))
    return viol


def run_flutter(cfg, acc):
    """
    Sources s0..s{n-1} (Inputs holding small integers), per source a private observer
    (parity of the value) with no other input, plus one block over all sources. A burst is any
    sequence of <= maxlen increments of arbitrary sources; checked at every idle point.
    """
    nsrc, extra, maxlen = cfg['flutter']
    viol = []
    seqs = [seq for ln in range(1, maxlen + 1) for seq in itertools.product(range(nsrc), repeat=ln)
            if len(set(seq)) > 1 or ln in (1, maxlen)]
    for order in ('asc', 'desc'):
        with Sim() as sim:
            nets.install_rank_hash()
            srcs = [edzed.Input(f's{i}', initdef=0) for i in range(nsrc)]
            for j in range(extra):
                edzed.Input(f'idle{j}', initdef=0)
            obs = [edzed.FuncBlock(f'odd{i}', func=lambda v: v % 2).connect(srcs[i]) for i in range(nsrc)]
            total = edzed.FuncBlock('total', func=lambda *vs: sum(vs)).connect(*srcs)
            blocks = obs + [total]
            nets.set_ranks(blocks, list(range(len(blocks))) if order == 'asc'
                           else list(reversed(range(len(blocks)))))
            senders = [edzed.ExtEvent(src) for src in srcs]

            async def driver():
                task = asyncio.create_task(sim.circuit.run_forever())
                await sim.circuit.wait_init()
                vals = [0] * nsrc
                for seq in seqs:
                    for i in seq:
                        vals[i] += 1
                        senders[i].send(vals[i])
                    await sim.loop.idle()
                    acc.count('bursts')
                    if task.done():
                        viol.append(('simulation-died', f"flutter burst {seq}: {sim.circuit.error!r}"))
                        break
                    got = [b.output for b in blocks]
                    exp = [v % 2 for v in vals] + [sum(vals)]
                    if got != exp:
                        viol.append(('output-mismatch:flutter',
                                     f"{nsrc} sources + {extra} idle sequential blocks, rank order {order}: "
                                     f"after one burst of increments of sources {seq} (now {vals}) the parity "
                                     f"observers and the sum output {got}, expected {exp}"))
                        break
                await stop(sim.circuit)
                del task
            sim.run(driver())
        acc.execs += 1
        acc.state(('flutter', nsrc, extra, order))
        acc.outcome(('flutter', nsrc, extra, maxlen, order, bool(viol)))
        if viol:
            break
    return viol


def run_config(cfg):
    acc = Acc()
    if 'flutter' in cfg:
        for sig, msg in run_flutter(cfg, acc)[:2]:
            acc.violation(f"C01:{sig}", msg, cfg=cfg)
        return acc
    if 'loopback' in cfg:
        return run_loopback(cfg, acc)
    if 'typed' in cfg or 'ripple' in cfg:
        for sig, msg in (run_typed if 'typed' in cfg else run_ripple)(cfg, acc)[:2]:
            acc.violation(f"C01:{sig}", msg, cfg=cfg)
        return acc
    if 'large' in cfg:
        for sig, msg in run_large(cfg, acc)[:2]:
            acc.violation(f"C01:{sig}", msg, cfg=cfg)
        return acc
    m = len(cfg['blocks'])
    for perm in itertools.permutations(range(m)):
        viol = run_network(cfg, perm, acc)
        for sig, msg in viol[:2]:
            acc.violation(f"C01:{sig}", f"rank order {perm}: {msg}", cfg=cfg,
                          detail={'perm': perm, 'network': cfg})
        if viol:
            break
    acc.sample({'network': cfg, 'bursts_per_walk': len(plan_for(cfg)[1])}, limit=3)
    return acc

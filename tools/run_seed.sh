#!/bin/bash
# usage: tools/run_seed.sh C03-1 [PID ...]   -- apply a stored seed to /repo, run quick checks, undo.
set -u
S=$1; shift
P=/verif/seeded/$S/patch.diff
PIDS=${@:-${S%%-*}}
cd /repo
[ -z "$(git status --porcelain -- edzed)" ] || { echo "/repo not clean"; exit 2; }
restore() { git -C /repo reset -q --hard HEAD; }
if ! git apply "$P" 2>/dev/null; then
  # the seed was made against an earlier commit: fall back to a 3-way merge
  if ! git apply -3 "$P" >/dev/null 2>&1; then
    restore
    echo "APPLY FAILED $S"; exit 2
  fi
fi
trap restore EXIT
cd /verif
for pid in $PIDS; do
  out=$(timeout 1200 /venv/bin/python -m vt $pid --tier ${TIER:-quick} 2>&1); rc=$?
  echo "== seed $S check $pid rc=$rc"
  echo "$out" | grep -E "VIOLATION|HARNESS|^\[" | head -${LINES_MAX:-6}
  echo "$out" | grep -A1 VIOLATION | grep -v "VIOLATION\|^--" | head -3
done

"""
C12 - OutputAsync honours its mode for every arrival pattern.

Every arrival pattern on a virtual time grid (simultaneous arrivals allowed) x run
durations x at most one failing run x stop instant x mode x guard_time x stop_data,
and every order of same-instant timers.  Oracle: invariants taken from the statement on
the time-stamped log of coroutine starts/ends/cancellations, result events and outputs,
plus exact start/end times for the fully determinate modes (wait, start).
"""
from __future__ import annotations

import asyncio
import itertools

import edzed

from ..explore import Acc, explore
from ..harness import Sim, TICK, stop
from ..probes import Probe, lblock_class

PROPERTY = 'C12'
LEVEL = 'model_checking'
LEVEL_TEXT = ("Bounded exhaustive schedule exploration of the real OutputAsync block on a virtual event "
              "loop: every arrival pattern of <=3 (quick) / <=4 (thorough) puts on a tick grid, run "
              "lengths, one failing run, every stop instant, for the three modes with/without guard "
              "time and stop_data, under every order of same-deadline timers; each execution is judged "
              "by invariants from the statement, and exact times are predicted for wait/start modes. "
              "Plus event data shapes (no data, falsy items, f_args/f_kwargs selections) x mode "
              "spellings x arrival patterns.")
LEVEL_NOTE = ("Virtual loop = stock CPython 3.12 _run_once; durations whole seconds; ample stop_timeout "
              "(completion is promised only within stop_timeout); during guard time the output may or "
              "may not count the finished run (the statement does not say).")
TECHNIQUE = "stateless model checking of the implementation (virtual-time schedule enumeration) vs. log invariants"
RULE = ("config = mode x guard x stop_data x arrival times x durations x failing run x stop instant; "
        "executions = all tie orders; outcome = complete time-stamped log; distinct = distinct logs")
ASSUMPTIONS = ["zero timer latency, integer-tick durations", "user coroutine = sleep(duration) then return/raise"]

GUARD = 2


def configs(tier):
    out = []
    quick = tier == 'quick'
    grid = [0, 1, 2, 3, 4] if quick else [0, 1, 2, 3, 4, 5]
    maxn = 3 if quick else 4
    for mode in ('cancel', 'wait', 'start'):
        for guard in (None, GUARD):
            if mode == 'start' and guard:
                continue
            for sd in (0, 1):
                for n in range(1, maxn + 1):
                    for times in itertools.combinations_with_replacement(grid, n):
                        if times[0] != 0:
                            continue        # time-shift symmetry: the first put at 0
                        dur_sets = list(itertools.product((1, 3), repeat=n))
                        if quick and n == 3:
                            dur_sets = [(1, 3, 1), (3, 1, 3), (3, 3, 1), (1, 1, 3)]
                        if n == 4:
                            dur_sets = [(1, 3, 1, 3), (3, 1, 3, 1), (3, 3, 1, 1)]
                        for durs in dur_sets:
                            fails = [None] + list(range(n))
                            if quick and n == 3:
                                fails = [None, 0, 1]
                            if n == 4:
                                fails = [None, 1]
                            for fail in fails:
                                last = times[-1]
                                stops = [None, 0, 1, 2, 3, 4, 5, 7]
                                if quick:
                                    stops = [None, 1, 2, 4] if n == 3 else [None, 0, 1, 2, 3, 5]
                                if n == 4:
                                    stops = [None, 2, 5]
                                for st in stops:
                                    if st is not None and st < last and n > 1 and not quick:
                                        pass
                                    out.append(dict(mode=mode, guard=guard, sd=sd, times=list(times),
                                                    durs=list(durs), fail=fail, stop=st))
    # a put that reaches the block after its stop() (sent by another block's asynchronous
    # clean-up): whatever happens to it, the stop_data run stays the last one
    for c in [c for c in out if len(c['times']) <= 2 and c['sd'] and c['stop'] is not None and c['fail'] is None]:
        for late in (0, 1, 2):
            out.append(dict(c, late=late))
    # ... and a put that arrives a few loop iterations after the stop request (it may be fetched
    # from the queue together with the stop marker)
    for c in [c for c in out if len(c['times']) == 1 and c['sd'] and c['stop'] is not None and c['fail'] is None
              and c.get('late') is None and c['durs'] == [1]]:
        for it in range(0, 12):
            out.append(dict(c, late=0, late_iters=it))
            out.append(dict(c, after_abort=it))     # counted from the stop request itself
    # cancel mode: the cancelled coroutine needs a tick for its own clean-up
    for c in [c for c in out if c['mode'] == 'cancel' and not c['guard'] and c.get('late') is None
              and len(c['times']) >= 2 and c['fail'] is None]:
        out.append(dict(c, slowcancel=1))
    # a second start-mode block that is still busy (for 12 s more) when the circuit stops: the
    # block under test has a stop_timeout that just covers its own work
    for c in [c for c in out if c['mode'] == 'start' and len(c['times']) <= 2 and c['stop'] is not None
              and c.get('late') is None]:
        out.append(dict(c, twin=1))
    # event data shapes: no data at all, falsy items only, arguments picked by f_args / f_kwargs
    for mode in ('cancel', 'wait', 'start', 'c', 'w', 's'):
        for shape in SHAPES:
            for times in ((0, 4, 8), (0, 0, 0), (0, 1, 1)):
                for sd in (0, 1):
                    out.append(dict(kind='shape', mode=mode, shape=shape, times=times, sd=sd))
    return out


# shape -> (f_args, f_kwargs, event data of put #i, sent directly to the block (no 'source' item))
SHAPES = {
    'empty': ((), (), lambda i: {}),
    'falsy': (('value',), (), lambda i: {'value': 0}),
    'none': (('value',), (), lambda i: {'value': None}),
    'kw': ((), ('x',), lambda i: {'x': i, 'unused': ''}),
    'both': (('a', 'b'), ('c',), lambda i: {'a': i, 'b': (), 'c': False}),
}


def run_shape(cfg, acc):
    """Every put - whatever its data looks like - gets exactly one result carrying that data."""
    mode, times, sd = cfg['mode'], cfg['times'], cfg['sd']
    f_args, f_kwargs, mk = SHAPES[cfg['shape']]
    viol = []
    for ch, obs in explore(lambda c: _shape_exec(cfg, c), max_execs=50):
        acc.execs += 1
        acc.outcome((mode, cfg['shape'], times, sd, repr(obs['calls']), repr(obs['results'])))
        tag = f"mode {mode!r}, f_args={f_args}, f_kwargs={f_kwargs}, puts {[mk(i) for i in range(3)]} at {times}"
        if obs['errors']:
            viol.append(('shape-error', f"{tag}: {obs['errors']}"))
            continue
        res = obs['results']
        for i in range(3):
            mine = [r for r in res if r[1] == mk(i)]
            exp_n = sum(1 for j in range(3) if mk(j) == mk(i))
            if len(mine) != exp_n:
                viol.append(('not-exactly-one-result', f"{tag}: put {mk(i)} has {len(mine)} result(s) "
                             f"(expected {exp_n}): {res}"))
                break
        nsucc = sum(1 for r in res if r[0] == 'success' and r[1] != STOPD)
        if mode[0] in 'ws' and nsucc != 3:
            viol.append(('run-missing', f"{tag}: {nsucc} successful runs, expected 3: {res}"))
        if mode[0] == 'c' and not any(r[0] == 'success' and r[1] == mk(obs['sent'][-1]) for r in res):
            viol.append(('latest-event-did-not-complete', f"{tag}: {res}"))
        exp_calls = [(tuple(mk(i)[k] for k in f_args), {k: mk(i)[k] for k in f_kwargs}) for i in obs['sent']]
        ran = [c for c in obs['calls'] if c != STOPCALL]
        if cfg['shape'] == 'empty' and sd:
            ran = ran[:-1]      # the stop_data run takes no arguments either
        if mode[0] in 'ws' and ran != exp_calls:
            viol.append(('wrong-arguments', f"{tag}: coroutine called with {ran}, expected {exp_calls}"))
        if any(c not in exp_calls for c in ran):
            viol.append(('wrong-arguments', f"{tag}: coroutine called with {ran}"))
        if sd:
            stops = [r for r in res if r[1] == STOPD]
            last_call_ok = cfg['shape'] == 'empty' or obs['calls'][-1:] == [STOPCALL]
            if len(stops) != 1 or res[-1][1] != STOPD or not last_call_ok:
                viol.append(('stop-data-not-last', f"{tag}: results {res}, calls {obs['calls']}"))
        if obs['out_end'] != 0:
            viol.append(('output-not-zero-at-end', f"{tag}: output {obs['out_end']}"))
    return viol


STOPD = {'a': 'STOP', 'b': 'STOP', 'c': 'STOP', 'x': 'STOP', 'value': 'STOP'}
STOPCALL = 'stop-call'


def _shape_exec(cfg, chooser):
    mode, times, sd = cfg['mode'], cfg['times'], cfg['sd']
    f_args, f_kwargs, mk = SHAPES[cfg['shape']]
    obs = {'errors': [], 'calls': [], 'results': [], 'sent': []}
    elog = []
    with Sim(chooser) as sim:
        loop = sim.loop

        async def coro(*args, **kwargs):
            if 'STOP' in args or 'STOP' in kwargs.values():
                obs['calls'].append(STOPCALL)
            else:
                obs['calls'].append((args, kwargs))
            await asyncio.sleep(1)
            return 'ok'
        probe = Probe('probe', log=elog)
        kw = {'stop_data': dict(STOPD)} if sd else {}
        if cfg.get('twin'):
            async def coro2(value):
                await asyncio.sleep(12 + (stop_at or 0))
            out2 = edzed.OutputAsync('out2', coro=coro2, mode=mode, stop_timeout=1000, on_error=None)
        blk = edzed.OutputAsync(
            'out', coro=coro, mode=mode, stop_timeout=5 if cfg.get('twin') else 1000, f_args=f_args, f_kwargs=f_kwargs,
            on_success=edzed.Event(probe, 'success'), on_error=edzed.Event(probe, 'error'),
            on_cancel=edzed.Event(probe, 'cancel'), **kw)

        async def driver():
            task = asyncio.create_task(sim.circuit.run_forever())
            await sim.circuit.wait_init()
            def put(i):
                obs['sent'].append(i)
                blk.event('put', **mk(i))
            futs = [loop.call_at_us(t * TICK, put, i) for i, t in enumerate(times)]
            del futs
            await loop.sleep_until_us(20 * TICK)
            if not sim.circuit.is_ready():
                obs['errors'].append(('simulation-stopped', repr(sim.circuit.error)))
            err = await stop(sim.circuit)
            if err is not None and not isinstance(err, asyncio.CancelledError):
                obs['errors'].append(('simulation-error', repr(err)))
            obs['out_end'] = blk.output
            del task
        try:
            sim.run(driver())
        except Exception as err:    # pylint: disable=broad-except
            obs['errors'].append(('driver-died', repr(err)))
        if loop.exc_log:
            obs['errors'].append(('loop-exception', [c.get('message') for c in loop.exc_log]))
    obs['results'] = [(e, d.get('put')) for (_t, _n, e, d) in elog]
    return obs


def one_exec(cfg, chooser):
    mode, guard, sd = cfg['mode'], cfg['guard'], cfg['sd']
    times, durs, fail, stop_at = cfg['times'], cfg['durs'], cfg['fail'], cfg['stop']
    n = len(times)
    clog = []       # coroutine log: (t, what, value, block output)
    elog = []       # probe log of result events / output events
    obs = {'errors': []}
    horizon = times[-1] + sum(durs) + (GUARD * (n + 2)) + 8
    with Sim(chooser) as sim:
        loop = sim.loop
        holder = {}

        def now():
            return loop.now_us // TICK

        async def coro(value):
            blk = holder['blk']
            clog.append((now(), 'start', value, blk.output))
            d = 1 if value in ('STOP', 'LATE') else durs[value]
            try:
                await asyncio.sleep(d)
            except asyncio.CancelledError:
                if cfg.get('slowcancel'):
                    await asyncio.sleep(1)      # clean-up of the cancelled run takes a tick
                clog.append((now(), 'cancelled', value, blk.output))
                raise
            clog.append((now(), 'end', value, blk.output))
            if value == fail:
                raise RuntimeError(f"fail-{value}")
            return ('ret', value)
        probe = Probe('probe', log=elog)
        kw = {}
        if guard:
            kw['guard_time'] = guard
        if sd:
            kw['stop_data'] = {'value': 'STOP', 'extra': 'sd'}
        if cfg.get('twin'):
            async def coro2(value):
                await asyncio.sleep(12 + (stop_at or 0))
            out2 = edzed.OutputAsync('out2', coro=coro2, mode=mode, stop_timeout=1000, on_error=None)
        blk = edzed.OutputAsync(
            'out', coro=coro, mode=mode, stop_timeout=5 if cfg.get('twin') else 1000,
            on_success=edzed.Event(probe, 'success'), on_error=edzed.Event(probe, 'error'),
            on_cancel=edzed.Event(probe, 'cancel'), on_output=edzed.Event(probe, 'output'), **kw)
        holder['blk'] = blk
        ext = edzed.ExtEvent(blk, 'put')
        def late_put(_b, n=[cfg.get('late_iters', 0)]):
            # after the given number of further loop iterations
            if n[0] > 0:
                n[0] -= 1
                loop.call_soon(late_put, _b)
                return
            try:
                blk.event('put', value='LATE', idx='LATE', source='late')
            except Exception as err:    # pylint: disable=broad-except
                obs['errors'].append(('late-put', repr(err)))
        if cfg.get('late') is not None:
            lblock_class(astop=True)('helper', log=[], cfg={
                'init_regular': ('set', 0),
                'astop': (cfg['late'], ('call', late_put))}, stop_timeout=1000)

        async def driver():
            task = asyncio.create_task(sim.circuit.run_forever())
            await sim.circuit.wait_init()
            sent = []
            if cfg.get('twin'):
                edzed.ExtEvent(out2, 'put').send('x')

            def put(i):
                try:
                    ext.send(i, idx=i)
                    sent.append(i)
                except edzed.EdzedInvalidState:
                    pass
            futs = []
            for i, t in enumerate(times):
                if stop_at is not None and t > stop_at:
                    break
                futs.append(loop.call_at_us(t * TICK, put, i))
            end = horizon if stop_at is None else stop_at
            stopfut = loop.call_at_us(end * TICK, sim.circuit.abort, asyncio.CancelledError('shutdown'))
            if cfg.get('after_abort') is not None:
                def chain(n=[cfg['after_abort']]):
                    if n[0] > 0:
                        n[0] -= 1
                        loop.call_soon(chain)
                        return
                    try:
                        blk.event('put', value='LATE', idx='LATE', source='late')
                    except Exception as err:    # pylint: disable=broad-except
                        obs['errors'].append(('late-put', repr(err)))
                futs.append(loop.call_at_us(end * TICK, chain))
            await stopfut
            err = await stop(sim.circuit)
            if err is not None and not isinstance(err, asyncio.CancelledError):
                obs['errors'].append(('simulation-error', repr(err)))
            obs['t_stopped'] = now()
            obs['sent'] = sent
            obs['out_end'] = blk.output
            n1, n2 = len(clog), len(elog)
            await loop.sleep_until_us((max(now(), end) + 6) * TICK)
            obs['after'] = (len(clog) - n1, len(elog) - n2)
            tasks, timers = loop.leftovers()
            obs['left_tasks'] = len([t for t in tasks if t is not asyncio.current_task()])
            del task
        try:
            sim.run(driver())
        except Exception as err:    # pylint: disable=broad-except
            obs['errors'].append(('driver-died', repr(err)))
        obs['loop_exc'] = [c.get('message') for c in loop.exc_log]
    obs['clog'] = clog
    obs['elog'] = [(t // TICK, e, d) for (t, _n, e, d) in elog]
    return obs


def judge(cfg, obs):
    errs = []
    mode, guard, sd = cfg['mode'], cfg['guard'] or 0, cfg['sd']
    times, durs, fail, stop_at = cfg['times'], cfg['durs'], cfg['fail'], cfg['stop']
    for k, m in obs['errors']:
        errs.append((k, m))
    if obs.get('loop_exc'):
        errs.append(('loop-exception', str(obs['loop_exc'])))
    if errs:
        return errs
    sent = obs['sent']
    clog, elog = obs['clog'], obs['elog']
    vals = list(sent) + (['STOP'] if sd else [])
    # --- I1: exactly one result per accepted put, carrying the original data
    results = {}
    for (t, e, d) in elog:
        if e == 'output':
            continue
        put = d.get('put')
        if not isinstance(put, dict) or 'value' not in put:
            errs.append(('result-without-put-data', f"{e} event data {d!r}"))
            continue
        v = put['value']
        if v == 'LATE':
            if put != {'value': 'LATE', 'idx': 'LATE', 'source': 'late'}:
                errs.append(('result-put-data-altered', f"{e}: put={put!r}"))
        elif v != 'STOP' and (put.get('idx') != v or put.get('source') != '_ext_'):
            errs.append(('result-put-data-altered', f"{e}: put={put!r}"))
        if v == 'STOP' and put.get('extra') != 'sd':
            errs.append(('result-put-data-altered', f"{e}: put={put!r}"))
        if d.get('trigger') != e:
            errs.append(('result-trigger-item', f"{e}: trigger={d.get('trigger')!r}"))
        if e == 'success' and d.get('value') != ('ret', v):
            errs.append(('success-value', f"{d!r}"))
        if e == 'error' and not isinstance(d.get('error'), RuntimeError):
            errs.append(('error-item', f"{d!r}"))
        results.setdefault(v, []).append((t, e))
    for v in vals:
        r = results.get(v, [])
        if len(r) != 1:
            errs.append(('not-exactly-one-result', f"put {v!r}: results {r!r} (all: {results!r})"))
    for v in results:
        if v not in vals and v != 'LATE':
            errs.append(('result-for-unknown-put', f"{v!r}"))
    if len(results.get('LATE', [])) > 1:
        errs.append(('not-exactly-one-result', f"late put: results {results['LATE']!r}"))
    if errs:
        return errs
    # --- runs
    runs = {}
    for (t, what, v, outp) in clog:
        r = runs.setdefault(v, {})
        if what in r:
            errs.append(('run-logged-twice', f"{what} {v!r}"))
        r[what] = t
    for v, r in runs.items():
        if 'start' not in r or ('end' in r) == ('cancelled' in r):
            errs.append(('run-lifecycle', f"{v!r}: {r!r}"))
    if errs:
        return errs
    # the put that arrived after stop(): the statement promises nothing about it, except that
    # the stop_data run is the last one
    late_run = runs.pop('LATE', None)
    if (mode == 'start' and stop_at is not None and 't_stopped' in obs
            and not cfg.get('twin') and cfg.get('late') is None):     # (no other block delays the stop)
        # the stop lasts as long as the pending work (+ the stop_data run), not until stop_timeout
        work = [r.get('end', r.get('cancelled', 0)) for v, r in runs.items() if v != 'STOP']
        if late_run is not None:
            work.append(late_run.get('end', late_run.get('cancelled', 0)))
        need = max(work + [stop_at]) + (1 if sd else 0)
        if obs['t_stopped'] > need + 1:
            errs.append(('stop-takes-too-long', f"stop requested at {stop_at}, the last run ended at "
                         f"{max(work + [stop_at])}, but the circuit stopped only at {obs['t_stopped']} "
                         f"(stop_timeout 1000)"))
    if sd and 'end' not in runs.get('STOP', {}):
        errs.append(('stop-data-not-processed',
                     f"the stop_data run did not take place or did not complete: {runs.get('STOP')!r}; "
                     f"results {results!r}"))
    if late_run is not None and 'STOP' in runs and late_run['start'] > runs['STOP']['start']:
        errs.append(('stop-data-not-last', f"a put that arrived after stop() ran {late_run!r} after the "
                     f"stop_data run {runs['STOP']!r}"))
    if late_run is not None:
        if ('STOP' in runs and late_run['start'] <= runs['STOP']['start']
                and late_run.get('end', late_run.get('cancelled', 0)) > runs['STOP']['start']):
            errs.append(('stop-data-overlaps-run',
                         f"the stop_data run {runs['STOP']!r} began while the run of the last put "
                         f"{late_run!r} was still active"))
        return errs     # (time and order predictions below do not cover this extra run)
    for v in vals:
        (t, e), = results[v]
        r = runs.get(v)
        if r is None:
            if e != 'cancel':
                errs.append(('result-without-run', f"{v!r}: {e}"))
            elif mode != 'cancel':
                errs.append(('discarded-outside-cancel-mode', f"{v!r} never ran in mode {mode}"))
            continue
        exp = 'cancel' if 'cancelled' in r else ('error' if v == fail else 'success')
        if e != exp:
            errs.append(('wrong-result-kind', f"{v!r}: {e}, expected {exp}"))
        tend = r.get('end', r.get('cancelled'))
        if t != tend:
            errs.append(('result-time', f"{v!r}: {e} at {t}, run ended at {tend}"))
        if 'end' in r and r['end'] - r['start'] != (1 if v == 'STOP' else durs[v]):
            errs.append(('run-length', f"{v!r}: {r!r}"))
        if 'cancelled' in r and mode != 'cancel':
            errs.append(('cancelled-outside-cancel-mode', f"{v!r} in mode {mode}"))
    arr = {v: times[v] for v in sent}
    if sd:
        arr['STOP'] = obs_stop_time(cfg)
    order = sorted(runs, key=lambda v: (runs[v]['start'], vals.index(v)))
    ends = {v: runs[v].get('end', runs[v].get('cancelled')) for v in runs}
    # --- mode rules
    if mode == 'wait':
        exp_order = [v for v in vals]
        if order != exp_order:
            errs.append(('wait-order', f"runs started in order {order!r}, arrivals {exp_order!r}"))
        prev_end = None
        for v in exp_order:
            if v not in runs:
                continue
            st = arr[v] if prev_end is None else max(arr[v], prev_end + guard)
            if runs[v]['start'] != st:
                errs.append(('wait-start-time', f"{v!r} started at {runs[v]['start']}, expected {st}"))
            prev_end = ends[v]
    elif mode == 'start':
        for v in sent:
            if v in runs and runs[v]['start'] != arr[v]:
                errs.append(('start-mode-not-immediate',
                             f"{v!r} arrived at {arr[v]}, started at {runs[v]['start']}"))
        if sd and 'STOP' in runs:
            others = [ends[v] for v in runs if v != 'STOP']
            if others and runs['STOP']['start'] < max(others):
                errs.append(('stop-data-not-last', f"STOP run started at {runs['STOP']['start']}, other runs ended {others}"))
    else:
        for v in runs:
            if 'cancelled' in runs[v]:
                newer = [w for w in vals if vals.index(w) > vals.index(v) and arr[w] <= runs[v]['cancelled']]
                if not newer:
                    errs.append(('cancelled-without-newer-event',
                                 f"{v!r} cancelled at {runs[v]['cancelled']}, arrivals {arr!r}"))
        for v in vals:
            if v not in runs:
                # discarded: some newer event must have arrived by the time it was reported
                (t, e), = results[v]
                newer = [w for w in vals if vals.index(w) > vals.index(v) and arr[w] <= t]
                if not newer:
                    errs.append(('discarded-without-newer-event', f"{v!r} at {t}"))
        last = vals[-1] if vals else None
        if last in results and results[last][0][1] == 'cancel':
            errs.append(('most-recent-event-cancelled', f"{last!r}: {results[last]!r}"))
    if mode in ('wait', 'cancel'):
        # one at a time, separated by at least guard_time
        seq = sorted(runs, key=lambda v: runs[v]['start'])
        for a, b in zip(seq, seq[1:]):
            if runs[b]['start'] < ends[a]:
                errs.append(('overlapping-runs', f"{a!r} {runs[a]!r} / {b!r} {runs[b]!r}"))
            elif runs[b]['start'] < ends[a] + guard:
                errs.append(('guard-time-shortened',
                             f"{b!r} started at {runs[b]['start']}, previous run ended {ends[a]}, guard {guard}"))
    if sd and 'STOP' in runs:
        later = [v for v in runs if v != 'STOP' and runs[v]['start'] > runs['STOP']['start']]
        if later:
            errs.append(('stop-data-not-last', f"runs {later!r} started after the stop_data run"))
        # pending work is completed first: nothing is still running when the stop_data run begins
        t_sd = runs['STOP']['start']
        busy = [v for v in runs if v != 'STOP' and v not in later
                and runs[v].get('end', runs[v].get('cancelled', t_sd)) > t_sd]
        if busy:
            errs.append(('stop-data-overlaps-run',
                         f"the stop_data run began at {t_sd} while the runs {busy!r} were still active: "
                         f"{ {v: runs[v] for v in busy} }"))
    # --- output = number of active runs (read inside the coroutine at every log point)
    active = set()
    ended = {}
    for (t, what, v, outp) in clog:
        if what == 'start':
            active.add(v)
        definite = len(active)
        # a finished run is still counted while its (uncancellable) guard sleep lasts
        slack = sum(1 for w, te in ended.items() if guard and t <= te + guard)
        if not definite <= outp <= definite + slack:
            errs.append(('output-not-active-count',
                         f"at {what} of {v!r} (t={t}): output {outp}, active runs {definite} (+{slack} in guard time)"))
        if what != 'start':
            active.discard(v)
            ended[v] = t
    if obs['out_end'] != 0:
        errs.append(('output-not-zero-when-idle', f"output {obs['out_end']} after stop"))
    outs = [d.get('value') for (t, e, d) in elog if e == 'output']
    if any(o < 0 for o in outs) or (mode != 'start' and any(o > 1 for o in outs)):
        errs.append(('output-range', f"outputs {outs!r} in mode {mode}"))
    if obs['after'] != (0, 0):
        errs.append(('activity-after-stop', f"{obs['after']} log entries after shutdown returned"))
    if obs['left_tasks']:
        errs.append(('task-left-after-stop', f"{obs['left_tasks']} tasks"))
    return errs


def obs_stop_time(cfg):
    times, durs = cfg['times'], cfg['durs']
    if cfg['stop'] is not None:
        return cfg['stop']
    return times[-1] + sum(durs) + (GUARD * (len(times) + 2)) + 8


def run_config(cfg):
    acc = Acc()
    if cfg.get('kind') == 'shape':
        for sig, msg in run_shape(cfg, acc)[:3]:
            acc.violation(f"C12:{sig}:{cfg['mode']}", msg, cfg=cfg)
        return acc
    ex = explore(lambda ch: one_exec(cfg, ch), max_execs=400)
    key = (cfg['mode'], cfg['guard'], cfg['sd'])
    for ch, obs in ex:
        acc.execs += 1
        acc.choice_points += sum(1 for t in ch.trace if t[0] > 1)
        acc.outcome((key, repr(obs['clog']), repr([(t, e, sorted(d.items(), key=repr)) for t, e, d in obs['elog']])))
        prev = acc.state(('idle', key))
        for (t, what, v, outp) in obs['clog']:
            st = acc.state((key, what, outp, len([1 for x in obs['clog'] if x[0] == t])))
            acc.transition(prev, what, st)
            prev = st
        for sig, msg in judge(cfg, obs):
            acc.violation(f"C12:{sig}:{cfg['mode']}", msg, cfg=cfg, choices=ch.choices,
                          detail={'clog': obs['clog'], 'elog': obs['elog']})
        if acc.execs == 1:
            acc.sample({'cfg': cfg, 'clog': obs['clog']}, limit=2)
    if ex.capped:
        acc.caps.append('tie_orders_per_config>400')
    return acc

"""
C09 - the first error stops the simulation and is the one that gets reported.

All orderings of 1..3 error sources of different kinds - handler error (H), handler error reached through a combinational block's output event, i.e. inside the simulation task (G), handler interrupted by a failing nested event (N), output calculation
error (C), failing monitored block task (M), failing / returning supporting task (S / R),
abort(exc) (A), 'abort' control event (E), shutdown() (X), cancellation of the task (K) - and
the non-fatal kinds unknown event type (U), missing event parameter (P) fired from timer
callbacks at chosen virtual instants incl. the same instant (every tie order, explored by the
virtual loop), with run_forever() and run() as entry points, in a circuit that also contains
blocks whose asynchronous initialisation, state restoration and stop() fail (non-fatal).
The order in which errors reach the simulator is observed (calls of the public abort() and
the instant the faulty output function raises); the reported error must be the first one.
"""
from __future__ import annotations

import asyncio
import collections.abc
import itertools

import edzed

from ..explore import Acc, explore
from ..harness import Sim, TICK, Livelock
from ..probes import lblock_class, Fault
from .. import nets

PROPERTY = 'C09'
LEVEL = 'fault_enumeration'
LEVEL_TEXT = ("Exhaustive enumeration of fault sequences on the real code under the virtual loop: "
              "every sequence of <=3 (quick: <=2 plus selected triples) error sources of different "
              "kinds (11 kinds) x instants incl. the same instant x every tie order of same-instant "
              "timers x entry point (run_forever / run with a supporting task); the error out of "
              "run_forever(), Circuit.error, shutdown() and run() must be the first fatal error "
              "that reached the simulator; non-fatal kinds must leave the circuit ready; a stopped "
              "circuit must stay not ready. Plus: abort() before the start, and every single / ordered "
              "pair of 5 error sites inside the simulation task's own initialisation pass.")
LEVEL_NOTE = ("The delivery order is observed at the public Circuit.abort() and in the instrumented "
              "output function; sources are fired from timer callbacks so that true ties exist; "
              "the circuit always contains blocks with failing init_async, restore and stop().")
TECHNIQUE = ("exhaustive fault-sequence enumeration on the implementation (virtual-time schedules, "
             "all tie orders) vs. first-delivered reference")
RULE = ("a case = (sequence of (kind, instant), entry point, tie-order choices); outcome = (case, "
        "delivery order, reported error kind); distinct = distinct outcomes; non-trivial = all")
ASSUMPTIONS = [
    "a supporting task's failure reaches the simulator only as the cancellation issued by run()",
]

T0 = 4          # the sources fire at T0 + their instant; the start-up is over by then
FATAL = 'HCMAENG'
STOPS = 'XKRTY'
KINDS = 'HCMAEXKSRUPNGTY'
# T: a combinational block's output event sends 'shutdown' to _ctrl (a stop recorded from inside
#    the simulation task) and the next block of the same evaluation round fails
# Y: abort(CancelledError): a stop request that takes effect at once


def configs(tier):
    out = []
    for exc in HANDLER_EXC:
        for where in ('handler', 'enter'):
            for via in ('ext', 'direct'):
                out.append(dict(kind='excclass', exc=exc, where=where, via=via))
    times = (1, 2)

    def ok_for(entry, seq):
        ks = [k for k, _t in seq]
        if entry == 'run_forever' and any(k in 'SR' for k in ks):
            return False
        return len(set(ks)) == len(ks)
    for entry in ('run_forever', 'run'):
        for n in (1, 2, 3):
            for ks in itertools.permutations(KINDS, n):
                if n == 3 and tier == 'quick':
                    # triples: at least two fatal kinds, or a stop between errors
                    if sum(1 for k in ks if k in FATAL + 'S') < 2:
                        continue
                for ts in itertools.product(times, repeat=n):
                    if list(ts) != sorted(ts):
                        continue
                    seq = tuple(zip(ks, ts))
                    if ok_for(entry, seq):
                        out.append(dict(kind='seq', entry=entry, seq=seq))
    if tier == 'thorough':
        for entry in ('run_forever', 'run'):
            # three instants
            for n in (2, 3):
                for ks in itertools.permutations(KINDS, n):
                    for ts in itertools.product((1, 2, 3), repeat=n):
                        if list(ts) != sorted(ts) or 3 not in ts:
                            continue
                        seq = tuple(zip(ks, ts))
                        if ok_for(entry, seq):
                            out.append(dict(kind='seq', entry=entry, seq=seq))
            # four sources
            for ks in itertools.permutations('HCMAEXS', 4):
                for ts in ((1, 1, 1, 1), (1, 1, 2, 2), (1, 2, 2, 2), (1, 1, 1, 2), (1, 2, 3, 3)):
                    seq = tuple(zip(ks, ts))
                    if ok_for(entry, seq):
                        out.append(dict(kind='seq', entry=entry, seq=seq))
    for c in [c for c in out if c['kind'] == 'seq' and any(k == 'M' for k, _t in c['seq'])
              and len(c['seq']) <= 2]:
        out.append(dict(c, mode='task'))
    for c in [c for c in out if c['kind'] == 'seq']:
        ts = dict(c['seq'])
        if 'C' in ts and 'G' in ts and ts['C'] == ts['G']:
            out.append(dict(c, cb_order=1))     # the other evaluation order of the two blocks
    for entry in ('run_forever', 'run'):
        for exc in ('fault', 'cancel'):
            for then in (None, 'H', 'A'):
                out.append(dict(kind='prestart', entry=entry, exc=exc, then=then))
    # errors delivered from inside the simulation task while it initialises the blocks
    for entry in ('run_forever', 'run'):
        for a in INIT_SITES:
            for astop in (True, False):
                out.append(dict(kind='initfault', entry=entry, sites=(a,), astop=astop))
            if a in INIT_QUIET:
                for b in INIT_SITES:
                    if b != a:
                        out.append(dict(kind='initfault', entry=entry, sites=(a, b), astop=True))
    return out


# raise: init_regular raises; evt: an initdef's output event reaches a failing handler (the
# error propagates through the initialisation); ctl: an initdef's output event is an 'abort'
# control event; sup: init_regular sends an event to a failing handler and suppresses the
# error; abort: init_regular calls abort() and carries on
INIT_SITES = ('raise', 'evt', 'ctl', 'sup', 'abort', 'early')
INIT_QUIET = ('ctl', 'sup', 'abort', 'early')       # no exception reaches run_forever()


CANCEL_MARK = asyncio.CancelledError('harness: task.cancel()')


class FlakyStore(collections.abc.MutableMapping):
    """A storage (like shelve) in which reading one record fails with an I/O error."""
    def __init__(self, data, bad_key):
        self._d = dict(data)
        self._bad = bad_key
        self._reads = 0

    def __getitem__(self, key):
        if key == self._bad:
            self._reads += 1
            if self._reads == 1:
                raise OSError('storage: cannot read the record')
        return self._d[key]

    def __setitem__(self, key, value):
        self._d[key] = value

    def __delitem__(self, key):
        del self._d[key]

    def __iter__(self):
        return iter(self._d)

    def __len__(self):
        return len(self._d)


class BadState(edzed.AddonPersistence, edzed.SBlock):
    """Its state cannot be saved at the stop (a clean-up failure: only logged)."""
    def init_regular(self):
        self.set_output(0)

    def _restore_state(self, state):
        self.set_output(state)

    def get_state(self):
        raise ValueError('get_state() failed (intended)')


class Tagged(Exception):
    """An error with a tag (so that identity and kind are both checkable)."""


def one_exec(cfg, chooser):
    entry, seq = cfg['entry'], cfg['seq']
    obs = {'delivered': [], 'fired': [], 'errors': []}
    log = []
    with Sim(chooser, max_iterations=20000) as sim:
        # the block sets of the simulator iterate in a harness-chosen order (two combinational
        # blocks failing in one evaluation round: both orders are configurations)
        nets.install_rank_hash()
        circuit = sim.circuit
        loop = sim.loop
        excs = {k: Tagged(k) for k in KINDS}
        # -- blocks
        hblk = lblock_class()('hblk', log=log, cfg={'init_regular': ('set', 0),
                                                      'event': ('raise', excs['H'])})
        okblk = lblock_class()('okblk', log=log, cfg={'init_regular': ('set', 0)})

        gdst = lblock_class()('gdst', log=log, cfg={'init_regular': ('set', 0),
                                                      'event': ('raise', excs['G'])})
        ginp = edzed.Input('ginp', initdef=0)
        gfb = edzed.FuncBlock('gfb', func=lambda a: a, on_output=edzed.Event(
            gdst, 'ev', efilter=edzed.not_from_undef)).connect(ginp)

        def nested_bad(blk, etype, data):
            # the handler is interrupted half way by a nested event with a missing parameter:
            # for the inner block a caller's error, for this block an error inside its handler
            blk.set_output('half-done')
            try:
                inp.event('put')
            except TypeError as err:
                excs['N'] = err
                raise
        nblk = lblock_class()('nblk', log=log, cfg={'init_regular': ('set', 0), 'on_event': nested_bad})
        inp = edzed.Input('inp', initdef=0)

        tinp = edzed.Input('tinp', initdef=0)
        tfb = edzed.FuncBlock('tfb', func=lambda a: a, on_output=edzed.Event(
            '_ctrl', 'shutdown', efilter=edzed.not_from_undef)).connect(tinp)

        def tcalc(a):
            if a == 'go':
                obs['delivered'].append(('T2', excs['T'], sim.now))
                raise excs['T']
            return a
        tfb2 = edzed.FuncBlock('tfb2', func=tcalc).connect(tfb)

        def calc(a):
            if a == 'boom':
                obs['delivered'].append(('C', excs['C'], sim.now))
                raise excs['C']
            return a
        fb = edzed.FuncBlock('fb', func=calc).connect(inp)
        nets.set_ranks([fb, gfb], (1, 0) if cfg.get('cb_order') else (0, 1))
        nets.set_ranks([tfb, tfb2], (2, 3))
        mtime = [t for k, t in seq if k == 'M']

        def task_fails(_blk):
            # the failure of a monitored task is an error delivered to the simulator right now
            obs['delivered'].append(('task', excs['M'], sim.now))
            raise excs['M']
        lblock_class(maintask=True)('mblk', log=log, cfg={
            'init_regular': ('set', 0),
            'maintask': (T0 + mtime[0], ('call', task_fails)) if mtime else (None, None)}, stop_timeout=5)
        # non-fatal trouble makers
        lblock_class(ainit=True, ifv=True)('badinit', log=log, cfg={
            'ainit': (0.5, ('raise', Fault('init_async')))}, init_timeout=3, initdef='d')
        rblk = lblock_class(persist=True, ifv=True)('badrestore', log=log, cfg={
            'restore': ('raise', Fault('restore'))}, persistent=True, initdef='d')
        lblock_class()('badstop', log=log, cfg={'init_regular': ('set', 0),
                                               'stop': ('raise', Fault('stop'))})
        lblock_class(astop=True)('badastop', log=log, cfg={
            'init_regular': ('set', 0), 'astop': (0.25, ('raise', Fault('stop_async')))}, stop_timeout=3)
        ctl = edzed.OutputFunc('ctl', func=lambda value: value, on_error=None,
                               on_success=edzed.Event('_ctrl', 'abort',
                                                      efilter=edzed.DataEdit.add(error=excs['E'])))
        # ... and a block whose saved record cannot be read (a storage failure is only logged)
        BadState('badstate', persistent=True, sync_state=False)
        unread = edzed.Input('unreadable', persistent=True, initdef='d')
        circuit.set_persistent_data(FlakyStore({rblk.key: 'saved', unread.key: 'x', 'edzed-stop-time': 0.0},
                                               bad_key=unread.key))
        # -- observe what reaches the simulator
        real_abort = circuit.abort

        def abort_spy(exc):
            obs['delivered'].append(('abort', exc, sim.now))
            return real_abort(exc)
        circuit.abort = abort_spy
        state = {}

        def fire(kind):
            obs['fired'].append((kind, sim.now))
            try:
                if kind == 'H':
                    edzed.ExtEvent(hblk, 'ev').send(1)
                elif kind == 'C':
                    edzed.ExtEvent(inp).send('boom')
                elif kind == 'N':
                    edzed.ExtEvent(nblk, 'ev').send(1)
                elif kind == 'G':
                    edzed.ExtEvent(ginp).send('go')
                elif kind == 'A':
                    circuit.abort(excs['A'])
                    state.setdefault('ready_after_stop', []).append((kind, circuit.is_ready()))
                elif kind == 'Y':
                    circuit.abort(asyncio.CancelledError('stop request'))
                    state.setdefault('ready_after_stop', []).append((kind, circuit.is_ready()))
                elif kind == 'T':
                    edzed.ExtEvent(tinp).send('go')
                elif kind == 'E':
                    edzed.ExtEvent(ctl).send(1)
                elif kind == 'X':
                    state['shutdown'] = asyncio.ensure_future(_capture(circuit.shutdown()))
                elif kind == 'K':
                    if entry == 'run_forever' and not state['main'].done():
                        obs['delivered'].append(('cancel', CANCEL_MARK, sim.now))
                    state['main'].cancel()
                elif kind == 'U':
                    edzed.ExtEvent(okblk, 'ev').send(1)      # keep it busy first
                    edzed.ExtEvent(inp, 'no_such_event').send(1)
                elif kind == 'P':
                    edzed.ExtEvent(inp, 'put').send()
            except BaseException as err:    # pylint: disable=broad-except
                obs['errors'].append((kind, err))     # the caller catches everything
            if kind in 'UPHCE' and circuit.is_ready():
                state.setdefault('ready_after', []).append(kind)

        async def support(kind, t):
            await asyncio.sleep(t)
            obs['fired'].append((kind, sim.now))
            if kind == 'S':
                raise excs['S']

        async def driver():
            sup = [support(k, T0 + t) for k, t in seq if k in 'SR']
            if entry == 'run':
                if not sup:
                    async def idle():
                        await asyncio.get_running_loop().create_future()
                    sup = [idle()]
                main = asyncio.create_task(edzed.run(*sup))
            else:
                main = asyncio.create_task(circuit.run_forever())
            state['main'] = main
            await asyncio.sleep(0)
            try:
                await circuit.wait_init()
                state['init_ok'] = True
            except BaseException as err:    # pylint: disable=broad-except
                state['init_ok'] = repr(err)
            state['t_init'] = sim.now
            state['ready_after_init'] = circuit.is_ready()
            state['error_after_init'] = circuit.error
            t0 = T0
            for k, t in seq:
                if k not in 'SRM':
                    if cfg.get('mode') == 'task':
                        # fired from a task woken at that instant: it competes with the failing
                        # monitored task (also woken by a timer) under every tie order
                        async def fire_later(k=k, t=t):
                            await loop.sleep_until_us((t0 + t) * TICK)
                            fire(k)
                        asyncio.ensure_future(fire_later())
                    else:
                        loop.call_at((t0 + t) * TICK / 1_000_000, fire, k)
            await asyncio.sleep(t0 + 3 - sim.now)
            state['ready_mid'] = circuit.is_ready()
            state['error_mid'] = circuit.error
            state['done_mid'] = main.done()
            fatal_or_stop = any(k in FATAL + STOPS + 'S' for k, _t in seq)
            if not fatal_or_stop:
                # only non-fatal sources: the circuit must still work; stop it now
                state['ready_nonfatal'] = circuit.is_ready()
                try:
                    state['works'] = edzed.ExtEvent(okblk, 'ev').send(5)
                except BaseException as err:    # pylint: disable=broad-except
                    state['works'] = repr(err)
                asyncio.ensure_future(_capture(circuit.shutdown()))
            for _ in range(30):
                if main.done():
                    break
                await asyncio.sleep(1)
            state['finished'] = main.done()
            if not main.done():
                main.cancel()
                await asyncio.sleep(5)
            state['main_result'] = await _capture(main)
            if 'shutdown' in state:
                state['shutdown_result'] = await state['shutdown']
            state['shutdown_after'] = await _capture(circuit.shutdown())
            state['simtask_result'] = await _capture(circuit._simtask) if circuit._simtask else None
            state['error'] = circuit.error
            # stays not ready
            state['ready_end'] = circuit.is_ready()
            real_abort(Tagged('late abort'))
            try:
                edzed.ExtEvent(okblk, 'ev').send(1)
                state['late_send'] = 'delivered'
            except edzed.EdzedInvalidState:
                state['late_send'] = 'refused'
            await asyncio.sleep(5)
            state['ready_end2'] = circuit.is_ready()
            state['error_end'] = circuit.error
        try:
            sim.run(driver())
        except Livelock as err:
            obs['errors'].append(('livelock', err))
        except Exception as err:    # pylint: disable=broad-except
            obs['errors'].append(('driver', err))
        obs['state'] = state
        obs['excs'] = excs
    return obs


async def _capture(aw):
    try:
        return ('returned', await aw)
    except BaseException as err:    # pylint: disable=broad-except
        return ('raised', err)


def is_cancel(e):
    return isinstance(e, asyncio.CancelledError)


def judge(cfg, obs):
    viol = []
    st = obs['state']
    excs = obs['excs']
    seq = cfg['seq']
    kinds = [k for k, _t in seq]
    tag = f"sequence {seq} via {cfg['entry']}"
    for k, err in obs['errors']:
        if k in ('driver', 'livelock'):
            return [('driver-died', f"{tag}: {err!r}")]
    if st.get('init_ok') is not True or not st.get('ready_after_init') or st.get('error_after_init') is not None:
        # M at t<=... may fire during start-up? (it does not: start-up lasts 3 s, M fires at >= 1 s!)
        pass
    # M fires relative to the start of its task, i.e. possibly during the 3 s start-up
    delivered = obs['delivered']
    first = delivered[0] if delivered else None
    error = st.get('error')
    # 1. somebody fatal fired => the simulation must have terminated
    fatal_fired = [k for k in kinds if k in FATAL]
    if (fatal_fired or any(k in STOPS + 'S' for k in kinds)) and not st.get('finished'):
        viol.append(('fatal-error-did-not-stop-the-simulation',
                     f"{tag}: simulation still running 30 s later; error={error!r}"))
        return viol
    # 2. the reported error is the first one that reached the simulator
    if first is not None:
        f_exc = first[1]
        same = error is f_exc or (error is not None and error.__cause__ is f_exc) or (
            is_cancel(f_exc) and is_cancel(error))
        if not same and first[0] == 'cancel' and len(delivered) > 1 and delivered[1][2] == first[2]:
            # a task cancellation is only delivered in the next loop iteration: an abort() made
            # in the same instant may legitimately be first
            s_exc = delivered[1][1]
            same = error is s_exc or (error is not None and error.__cause__ is s_exc)
        if not same:
            viol.append(('first-error-replaced',
                         f"{tag}: errors reached the simulator in the order "
                         f"{[(k, repr(e), t) for k, e, t in delivered]}, but Circuit.error is {error!r}"))
    # expected kind of the first error: identity / documented wrapper
    if error is not None and not is_cancel(error):
        cause = error.__cause__
        known = [excs[k] for k in 'HCMAENGT']
        if error not in known and cause not in known:
            viol.append(('foreign-error', f"{tag}: Circuit.error = {error!r} (cause {cause!r})"))
        if (error is excs['H']) or (cause is excs['H'] and not isinstance(error, edzed.EdzedCircuitError)):
            viol.append(('handler-error-not-wrapped', f"{tag}: {error!r}"))
        if cause is excs['E'] and not isinstance(error, edzed.EdzedCircuitError):
            viol.append(('abort-event-error-not-wrapped', f"{tag}: {error!r}"))
    # 3. all four views agree
    sim_res = st.get('simtask_result')
    if sim_res is not None:
        if sim_res[0] != 'raised' or not (sim_res[1] is error or (is_cancel(sim_res[1]) and is_cancel(error))):
            viol.append(('run_forever-result', f"{tag}: run_forever() ended with {sim_res!r}, "
                         f"Circuit.error={error!r}"))
    sa = st.get('shutdown_after')
    if sa is not None:
        if is_cancel(error):
            if sa != ('returned', None):
                viol.append(('shutdown-result', f"{tag}: after a normal stop shutdown() -> {sa!r}"))
        elif sa[0] != 'raised' or sa[1] is not error:
            viol.append(('shutdown-result', f"{tag}: shutdown() -> {sa!r}, Circuit.error={error!r}"))
    main_res = st.get('main_result')
    if cfg['entry'] == 'run' and main_res is not None:
        s_failed = 'S' in kinds and any(k == 'S' for k, _t in obs['fired'])
        if error is not None and not is_cancel(error):
            exp = ('raised', error)
        elif s_failed:
            exp = ('raised', excs['S'])
        else:
            exp = ('returned', None)
        ok = main_res[0] == exp[0] and (main_res[1] is exp[1])
        if 'K' in kinds and main_res[0] == 'raised' and is_cancel(main_res[1]):
            ok = True       # the task awaiting run() was cancelled by the harness itself
        if not ok:
            viol.append(('run-result', f"{tag}: run() -> {main_res!r}, expected {exp!r} "
                         f"(Circuit.error={error!r})"))
    # 4. non-fatal kinds alone leave the circuit ready
    if not any(k in FATAL + STOPS + 'S' for k in kinds):
        if not st.get('ready_nonfatal') or st.get('error_mid') is not None or st.get('works') != 'handled':
            viol.append(('non-fatal-kind-stopped-the-simulation',
                         f"{tag}: ready={st.get('ready_nonfatal')} error={st.get('error_mid')!r} "
                         f"follow-up event -> {st.get('works')!r}"))
        for k, err in obs['errors']:
            if k == 'U' and not isinstance(err, edzed.EdzedUnknownEvent):
                viol.append(('unknown-event-report', f"{tag}: {err!r}"))
            if k == 'P' and not isinstance(err, TypeError):
                viol.append(('missing-parameter-report', f"{tag}: {err!r}"))
        if {'U', 'P'} & set(kinds) - {k for k, _e in obs['errors']}:
            viol.append(('bad-event-not-reported', f"{tag}: caller saw {obs['errors']}"))
    for k, ready in st.get('ready_after_stop', []):
        if ready:
            viol.append(('ready-after-stop', f"{tag}: is_ready() is true right after the stop request {k}"))
    # 5. stopped stays stopped, the error stays
    if st.get('ready_end') or st.get('ready_end2') or st.get('late_send') != 'refused':
        viol.append(('ready-after-stop', f"{tag}: is_ready {st.get('ready_end')}/{st.get('ready_end2')}, "
                     f"late ExtEvent {st.get('late_send')}"))
    if st.get('error_end') is not error:
        viol.append(('error-replaced-after-stop', f"{tag}: {error!r} -> {st.get('error_end')!r}"))
    if st.get('init_ok') is not True and not any(k == 'M' for k in kinds):
        viol.append(('start-failed', f"{tag}: {st.get('init_ok')}"))
    return viol


def run_prestart(cfg, acc):
    viol = []
    res = {}
    with Sim() as sim:
        circuit = sim.circuit
        log = []
        hblk = lblock_class()('hblk', log=log, cfg={'init_regular': ('set', 0),
                                                      'event': ('raise', Tagged('H'))})
        first = Tagged('first') if cfg['exc'] == 'fault' else asyncio.CancelledError('first')
        circuit.abort(first)
        if cfg['then'] == 'A':
            circuit.abort(Tagged('second'))
        elif cfg['then'] == 'H':
            try:
                hblk.event('ev')
            except Exception:   # pylint: disable=broad-except
                pass

        async def idle():
            await asyncio.get_running_loop().create_future()

        async def driver():
            if cfg['entry'] == 'run':
                res['main'] = await _capture(asyncio.create_task(edzed.run(idle())))
            else:
                res['main'] = await _capture(asyncio.create_task(circuit.run_forever()))
            res['error'] = circuit.error
            res['ready'] = circuit.is_ready()
            res['started'] = [e for e in log if e[2] == 'start']
            res['wait_init'] = await _capture(circuit.wait_init())
        sim.run(driver())
    acc.execs += 1
    acc.outcome(('prestart', cfg['entry'], cfg['exc'], cfg['then'], repr(res['main'])))
    tag = f"abort({first!r}) before the start, then {cfg['then']}, via {cfg['entry']}"
    if res['error'] is not first:
        viol.append(('first-error-replaced', f"{tag}: Circuit.error={res['error']!r}"))
    if cfg['exc'] == 'fault':
        if res['main'][0] != 'raised' or res['main'][1] is not first:
            viol.append(('abort-before-start', f"{tag}: {cfg['entry']}() -> {res['main']!r}"))
    else:
        exp_ok = (res['main'] == ('returned', None)) if cfg['entry'] == 'run' else (
            res['main'][0] == 'raised' and res['main'][1] is first)
        if not exp_ok:
            viol.append(('abort-before-start', f"{tag}: {cfg['entry']}() -> {res['main']!r}"))
    if res['ready'] or res['started']:
        viol.append(('abort-before-start', f"{tag}: ready={res['ready']} started={res['started']}"))
    if res['wait_init'][0] != 'raised' or not isinstance(res['wait_init'][1], edzed.EdzedInvalidState):
        viol.append(('wait_init-after-failed-start', f"{tag}: wait_init() -> {res['wait_init']!r}"))
    return viol


def run_initfault(cfg, acc):
    viol = []
    res = {}
    log = []
    delivered = []
    with Sim(max_iterations=20000) as sim:
        circuit = sim.circuit
        excs = {}
        if cfg['astop']:
            lblock_class(astop=True)('ast', log=log, cfg={
                'init_regular': ('set', 0), 'astop': (0.25, None)}, stop_timeout=3)
        lblock_class()('plain', log=log, cfg={'init_regular': ('set', 0)})
        for i, site in enumerate(cfg['sites']):
            exc = excs[i] = Tagged(f"{site}{i}")
            if site == 'raise':
                lblock_class()(f's{i}', log=log, cfg={'init_regular': ('raise', exc)})
            elif site == 'evt':
                h = lblock_class()(f'h{i}', log=log, cfg={'init_regular': ('set', 0),
                                                        'event': ('raise', exc)})
                edzed.Input(f's{i}', initdef=1, on_output=edzed.Event(h, 'ev'))
            elif site == 'ctl':
                edzed.Input(f's{i}', initdef=1, on_output=edzed.Event(
                    '_ctrl', 'abort', efilter=edzed.DataEdit.add(error=exc)))
            elif site == 'sup':
                h = lblock_class()(f'h{i}', log=log, cfg={'init_regular': ('set', 0),
                                                        'event': ('raise', exc)})

                def suppress(blk, h=h):
                    try:
                        h.event('ev', value=1)
                    except Exception:   # pylint: disable=broad-except
                        pass
                    blk.set_output(0)
                lblock_class()(f's{i}', log=log, cfg={'init_regular': ('call', suppress)})
            elif site == 'early':
                def send_early(blk, i=i):
                    try:
                        blk.circuit.findblock(f'e{i}').event('ev', value=1)
                    except Exception:   # pylint: disable=broad-except
                        pass
                    blk.set_output(0)
                lblock_class()(f's{i}', log=log, cfg={'init_regular': ('call', send_early)})
                lblock_class()(f'e{i}', log=log, cfg={'init_regular': ('seq', [('set', 0), ('raise', exc)])})
            elif site == 'abort':
                def do_abort(blk, exc=exc):
                    blk.circuit.abort(exc)
                    blk.set_output(0)
                lblock_class()(f's{i}', log=log, cfg={'init_regular': ('call', do_abort)})
        lblock_class()('last', log=log, cfg={'init_regular': ('set', 0)})
        real_abort = circuit.abort

        def abort_spy(exc):
            delivered.append(exc)
            return real_abort(exc)
        circuit.abort = abort_spy

        async def idle():
            await asyncio.get_running_loop().create_future()

        async def driver():
            if cfg['entry'] == 'run':
                main = asyncio.create_task(edzed.run(idle()))
            else:
                main = asyncio.create_task(circuit.run_forever())
            await asyncio.sleep(0)
            res['wait_init'] = await _capture(circuit.wait_init())
            for _ in range(30):
                if main.done():
                    break
                await asyncio.sleep(1)
            res['finished'] = main.done()
            if not main.done():
                main.cancel()
                await asyncio.sleep(5)
            res['main'] = await _capture(main)
            res['simtask'] = await _capture(circuit._simtask) if circuit._simtask else None
            res['error'] = circuit.error
            res['shutdown'] = await _capture(circuit.shutdown())
            res['ready'] = circuit.is_ready()
        try:
            sim.run(driver())
        except Livelock as err:
            return [('driver-died', repr(err))]
    acc.execs += 1
    acc.outcome(('initfault', cfg['entry'], cfg['sites'], cfg['astop'], repr(res.get('main')), repr(res.get('error'))))
    tag = f"errors {cfg['sites']} while the simulation task initialises the blocks, via {cfg['entry']}"
    error, first = res['error'], excs[0]
    if not res['finished']:
        return [('fatal-error-did-not-stop-the-simulation', f"{tag}: still running 30 s later")]
    if not (error is first or (error is not None and error.__cause__ is first)):
        viol.append(('first-error-replaced', f"{tag}: the first error is {first!r}, Circuit.error is "
                     f"{error!r} (cause {getattr(error, '__cause__', None)!r}); abort() calls: {delivered!r}"))
    if cfg['sites'][0] in ('evt', 'sup', 'ctl') and not isinstance(error, edzed.EdzedCircuitError):
        viol.append(('handler-error-not-wrapped', f"{tag}: {error!r}"))
    if res['simtask'] is None or res['simtask'][0] != 'raised' or res['simtask'][1] is not error:
        viol.append(('run_forever-result', f"{tag}: run_forever() ended with {res['simtask']!r}, "
                     f"Circuit.error={error!r}"))
    if res['shutdown'][0] != 'raised' or res['shutdown'][1] is not error:
        viol.append(('shutdown-result', f"{tag}: shutdown() -> {res['shutdown']!r}, Circuit.error={error!r}"))
    if cfg['entry'] == 'run' and (res['main'][0] != 'raised' or res['main'][1] is not error):
        viol.append(('run-result', f"{tag}: run() -> {res['main']!r}, Circuit.error={error!r}"))
    if res['wait_init'][0] != 'raised' or not isinstance(res['wait_init'][1], edzed.EdzedInvalidState):
        viol.append(('wait_init-after-failed-start', f"{tag}: wait_init() -> {res['wait_init']!r}"))
    if res['ready']:
        viol.append(('ready-after-stop', f"{tag}: is_ready() after the failed start"))
    return viol


HANDLER_EXC = ['EdzedInvalidState', 'EdzedCircuitError', 'EdzedError', 'ValueError', 'KeyError',
               'RuntimeError', 'LookupError', 'ZeroDivisionError']


def run_excclass(cfg, acc):
    """
    A handler (plain block / FSM entry action) fails with an exception of the given class -
    incl. the library's own classes, e.g. after an attempt to add a block to the running
    circuit - and the caller catches it: the simulation is terminated with that error.
    Only EdzedUnknownEvent (unknown type / wrong parameters) is reported to the caller alone.
    """
    viol = []
    cls = getattr(edzed, cfg['exc'], None) or getattr(__import__('builtins'), cfg['exc'])
    exc = cls(f"injected {cfg['exc']}")
    res = {}
    with Sim() as sim:
        circuit = sim.circuit
        if cfg['where'] == 'handler':
            blk = lblock_class()('blk', log=[], cfg={'init_regular': ('set', 0), 'event': ('raise', exc)})
            etype = 'ev'
        else:
            class F(edzed.FSM):
                STATES = ['a', 'b']
                EVENTS = [['go', ['a'], 'b']]

                def enter_b(self):
                    raise exc
            blk = F('blk')
            etype = 'go'

        async def driver():
            task = asyncio.create_task(circuit.run_forever())
            await circuit.wait_init()
            try:
                if cfg['via'] == 'ext':
                    edzed.ExtEvent(blk, etype).send(1)
                else:
                    blk.event(etype, value=1)
                res['raised'] = None
            except Exception as err:    # pylint: disable=broad-except  (the caller catches it)
                res['raised'] = err
            for _ in range(3):
                await asyncio.sleep(0)
            res['ready'] = circuit.is_ready()
            res['error'] = circuit.error
            try:
                await circuit.shutdown()
                res['shutdown'] = None
            except BaseException as err:    # pylint: disable=broad-except
                res['shutdown'] = err
            del task
        sim.run(driver())
    acc.execs += 1
    acc.outcome(('excclass', cfg['exc'], cfg['where'], cfg['via'], repr(res.get('error')), res.get('ready')))
    acc.state(('excclass', cfg['where'], cfg['via'], res.get('ready')))
    tag = (f"{cfg['where']} raises {cfg['exc']} during an event sent via {cfg['via']}, the caller catches the "
           f"exception")

    def is_ours(err):
        return err is exc or getattr(err, '__cause__', None) is exc
    if res['ready'] or res['error'] is None:
        viol.append(('handler-error-did-not-stop', f"{tag}: the simulation is still running (error {res['error']!r})"))
    elif not is_ours(res['error']) or not is_ours(res['shutdown']):
        viol.append(('first-error-replaced', f"{tag}: Circuit.error {res['error']!r}, shutdown() raised "
                     f"{res['shutdown']!r}"))
    return viol


def run_config(cfg):
    acc = Acc()
    if cfg['kind'] == 'excclass':
        for sig, msg in run_excclass(cfg, acc):
            acc.violation(f"C09:{sig}:excclass", msg, cfg=cfg)
        return acc
    if cfg['kind'] == 'initfault':
        for sig, msg in run_initfault(cfg, acc):
            acc.violation(f"C09:{sig}:init", msg, cfg=cfg)
        return acc
    if cfg['kind'] == 'prestart':
        for sig, msg in run_prestart(cfg, acc):
            acc.violation(f"C09:{sig}", msg, cfg=cfg)
        return acc
    ex = explore(lambda ch: one_exec(cfg, ch), max_execs=200)
    for ch, obs in ex:
        acc.execs += 1
        acc.choice_points += sum(1 for t in ch.trace if t[0] > 1)
        st = obs['state']
        acc.outcome((cfg['entry'], cfg['seq'], cfg.get('mode'), cfg.get('cb_order'), tuple(k for k, _e, _t in obs['delivered']),
                     repr(st.get('error')), repr(st.get('main_result'))))
        for sig, msg in judge(cfg, obs):
            acc.violation(f"C09:{sig}", msg, cfg=cfg, choices=ch.choices)
    if ex.capped:
        acc.caps.append('max_execs')
    acc.sample({'case': cfg}, limit=3)
    return acc

"""
Virtual asyncio event loop: stock CPython scheduling, harness-owned time and ties.

VLoop subclasses asyncio.BaseEventLoop and overrides only time(), _process_events()
and _write_to_self().  The stock BaseEventLoop._run_once runs unchanged; the fake
selector's select(timeout) is the single place where the harness acts:

  * time:  advances the virtual clock (integer microseconds) to the next deadline
           (+ an optional wake-up latency chosen by the chooser),
  * ties:  timer handles with *equal* deadlines that become due are moved to the ready
           queue in an order chosen by the chooser (default: heap order, as stock asyncio),
  * idle:  select() called with a non-zero timeout means "nothing is ready": futures
           returned by loop.idle() are resolved then, instead of advancing time,
  * deadlock: select(None) with nobody waiting for idle raises Deadlock,
  * livelock: an iteration budget raises Livelock.
"""
from __future__ import annotations

import asyncio
import heapq
import itertools
import math
from asyncio import base_events, events


class Deadlock(Exception):
    """Nothing ready, no timer, nobody waiting for idle."""


class Livelock(Exception):
    """Iteration budget or time horizon exhausted."""


class DefaultChooser:
    """Always takes choice 0 (default behaviour, no deviation)."""

    def choose(self, n: int, kind: str) -> int:     # pylint: disable=unused-argument
        return 0


class _VSelector:
    def __init__(self, loop: "VLoop"):
        self._loop = loop

    def select(self, timeout):
        return self._loop._vselect(timeout)

    def close(self):
        pass


class VLoop(base_events.BaseEventLoop):
    """
    chooser: object with choose(n, kind) -> int in range(n)
    tie_choice: enumerate orders of equal-deadline timers ('tie' choice points)
    latencies_us: tuple of extra wake-up latencies (first = default); >1 entry
                  creates 'lat' choice points at every time advance
    """

    def __init__(self, chooser=None, *, start_us: int = 0, tie_choice: bool = True,
                 latencies_us=(0,), max_iterations: int = 200_000,
                 horizon_us: int | None = None, lat_harness_timers: bool = True):
        super().__init__()
        self._now_us = int(start_us)
        self._selector = _VSelector(self)
        self.chooser = chooser or DefaultChooser()
        self.tie_choice = tie_choice
        self.latencies_us = tuple(latencies_us)
        self.lat_harness_timers = lat_harness_timers
        self._idle_waiters: list[asyncio.Future] = []
        self.iterations = 0
        self.max_iterations = max_iterations
        self.horizon_us = horizon_us
        self.exc_log: list[dict] = []       # what asyncio would merely log
        self.set_exception_handler(self._record_exception)
        self.time_advances = 0
        self.tie_points = 0

    # ---- the three overrides
    def time(self) -> float:
        return self._now_us / 1_000_000

    def _process_events(self, event_list):
        pass

    def _write_to_self(self):
        pass

    # ---- helpers for drivers
    @property
    def now_us(self) -> int:
        return self._now_us

    def advance_us(self, delta_us: int) -> None:
        """Advance the clock without running anything (models CPU held / clock reads)."""
        assert delta_us >= 0
        self._now_us += int(delta_us)

    def idle(self) -> asyncio.Future:
        """Future resolved at the next moment when nothing is ready to run."""
        fut = self.create_future()
        self._idle_waiters.append(fut)
        return fut

    async def sleep_until_us(self, when_us: int) -> None:
        """Sleep until the absolute virtual time (a timer with exactly that deadline)."""
        fut = self.create_future()
        handle = self.call_at(when_us / 1_000_000, _set_result_unless_done, fut)
        try:
            await fut
        finally:
            handle.cancel()

    def call_at_us(self, when_us: int, fn, *args) -> asyncio.Future:
        """
        Run fn(*args) directly from a timer callback with exactly that deadline (not from a task:
        a task woken by a timer runs one loop iteration later, i.e. always after every timer
        callback of the instant).  Returns a future with fn's result / exception.
        """
        fut = self.create_future()

        def cb():
            try:
                res = fn(*args)
            except BaseException as err:    # pylint: disable=broad-except
                if not fut.done():
                    fut.set_result(('raised', err))
            else:
                if not fut.done():
                    fut.set_result(('ok', res))
        self.call_at(when_us / 1_000_000, cb)
        return fut

    def _record_exception(self, loop, context):
        ctx = {k: (repr(v) if k not in ('message',) else v) for k, v in context.items()
               if k in ('message', 'exception', 'task', 'future', 'handle')}
        self.exc_log.append(ctx)

    # ---- the selector
    def _us_at_or_after(self, when: float) -> int:
        n = math.floor(when * 1_000_000)
        while n / 1_000_000 < when:
            n += 1
        return n

    def _vselect(self, timeout):
        self.iterations += 1
        if self.iterations > self.max_iterations:
            raise Livelock(f"iteration budget {self.max_iterations} exhausted at t={self.time()}")
        if timeout == 0:
            # something is ready (or timers already due): due timers are handled by stock code,
            # but equal-deadline ties among them are ours to order
            self._order_ties()
            return []
        # nothing is ready
        if self._idle_waiters:
            waiters, self._idle_waiters = self._idle_waiters, []
            for fut in waiters:
                if not fut.done():
                    fut.set_result(None)
            return []
        if timeout is None:
            raise Deadlock(f"nothing to run and no timer pending at t={self.time()}")
        # advance time to the first deadline
        when = self._scheduled[0]._when
        target = max(self._now_us, self._us_at_or_after(when))
        if len(self.latencies_us) > 1 and (self.lat_harness_timers or not self._is_harness_timer(
                self._scheduled[0])):
            target += self.latencies_us[self.chooser.choose(len(self.latencies_us), 'lat')]
        else:
            target += self.latencies_us[0]
        if self.horizon_us is not None and target > self.horizon_us:
            raise Livelock(f"time horizon {self.horizon_us} us exceeded (next deadline {when})")
        self._now_us = target
        self.time_advances += 1
        self._order_ties()
        return []

    @staticmethod
    def _is_harness_timer(handle) -> bool:
        """A timer created by the harness itself (driver sleeps, scheduled actions)."""
        cb = handle._callback
        return getattr(cb, '__module__', '').startswith('vt.')

    def _order_ties(self):
        """Move due timers to _ready; equal-deadline groups in a chosen order."""
        sched = self._scheduled
        if not sched:
            return
        end_time = self.time() + self._clock_resolution
        due = []
        while sched and sched[0]._when < end_time:
            handle = heapq.heappop(sched)
            handle._scheduled = False
            if handle._cancelled:
                # stock code counts cancelled handles; keep the counter consistent
                self._timer_cancelled_count -= 1
                continue
            due.append(handle)
        if not due:
            return
        if self.tie_choice:
            out = []
            for _when, grp in itertools.groupby(due, key=lambda h: h._when):
                grp = list(grp)
                if len(grp) > 1:
                    self.tie_points += 1
                    # choose a permutation incrementally (factorial number system)
                    rest = grp
                    while len(rest) > 1:
                        i = self.chooser.choose(len(rest), 'tie')
                        out.append(rest[i])
                        rest = rest[:i] + rest[i + 1:]
                    out.extend(rest)
                else:
                    out.extend(grp)
            due = out
        self._ready.extend(due)

    # ---- running
    def run(self, coro):
        """Run coro to completion on this loop; always leaves the loop closed."""
        try:
            return self.run_until_complete(coro)
        finally:
            self.shutdown_leftovers()

    def leftovers(self):
        """(pending tasks, live timer handles) - for 'nothing outlives' oracles."""
        tasks = [t for t in asyncio.all_tasks(self) if not t.done()]
        timers = [h for h in self._scheduled if not h._cancelled]
        return tasks, timers

    def shutdown_leftovers(self):
        if self.is_closed():
            return
        try:
            tasks = [t for t in asyncio.all_tasks(self) if not t.done()]
            for t in tasks:
                t.cancel()
            if tasks:
                self._idle_waiters.clear()
                try:
                    self.run_until_complete(_gather_quiet(tasks))
                except BaseException:      # pylint: disable=broad-except
                    pass
        finally:
            for h in list(self._scheduled):
                h.cancel()
            self._scheduled.clear()
            self._ready.clear()
            self.close()


async def _gather_quiet(tasks):
    await asyncio.gather(*tasks, return_exceptions=True)


def _set_result_unless_done(fut):
    if not fut.done():
        fut.set_result(None)


class MinimalLoop(base_events.BaseEventLoop):
    """
    Independent minimal loop for the self-test: stock _run_once + a selector that only
    advances time.  Used to cross-check that VLoop's choice plumbing (with all-default
    choices) does not change semantics.
    """

    def __init__(self, start_us=0):
        super().__init__()
        self._now = start_us / 1_000_000
        loop = self

        class Sel:
            def select(self, timeout):
                if timeout == 0:
                    return []
                if loop._idle_waiters:
                    ws, loop._idle_waiters = loop._idle_waiters, []
                    for f in ws:
                        if not f.done():
                            f.set_result(None)
                    return []
                if timeout is None:
                    raise Deadlock("minimal loop: nothing to do")
                loop._now = max(loop._now, loop._scheduled[0]._when)
                return []

            def close(self):
                pass
        self._selector = Sel()
        self._idle_waiters = []
        self.exc_log = []
        self.set_exception_handler(lambda l, c: self.exc_log.append(c.get('message')))

    def time(self):
        return self._now

    @property
    def now_us(self):
        return round(self._now * 1_000_000)

    def _process_events(self, event_list):
        pass

    def _write_to_self(self):
        pass

    def idle(self):
        fut = self.create_future()
        self._idle_waiters.append(fut)
        return fut

    async def sleep_until_us(self, when_us):
        fut = self.create_future()
        h = self.call_at(when_us / 1_000_000, _set_result_unless_done, fut)
        try:
            await fut
        finally:
            h.cancel()

    def run(self, coro):
        try:
            return self.run_until_complete(coro)
        finally:
            VLoop.shutdown_leftovers(self)

#!/bin/bash
# Run every registered quick check once; print one line per check. Usage: tools/run_all_quick.sh [seed]
cd /verif
export VERIF_SEED=${1:-0}
rcs=0
for p in $(/venv/bin/python -c "import json;print(' '.join(c['property_id'] for c in json.load(open('MANIFEST.json'))['checks']))"); do
  out=$(timeout 1800 /venv/bin/python -m vt $p --tier ${TIER:-quick} 2>&1); rc=$?
  echo "$p rc=$rc $(echo "$out" | grep -E "^\[$p" | sed -e 's/counters=.*wall=/wall=/')"
  echo "$out" | grep -E "VIOLATION|HARNESS" | head -3
  [ $rc -ne 0 ] && rcs=1
done
exit $rcs

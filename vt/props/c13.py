"""
C13 - interval specifications mean the same in every accepted notation.

Every notation docs/sblocks2.rst allows is *generated from the numeric value*, so the expected
normal form is known by construction.  Exhaustive over an endpoint grid (times: hours x minutes
x seconds x microseconds; all 366 dates; a date-time grid incl. Feb 29 and year ends), all
ordered endpoint pairs of a reduced grid x separators x delimiters x container forms,
two-range intervals (sorting, union), membership probes at both endpoints and their
neighbours, round trips through as_list()/as_string(), a grammar-derived malformed list and
TimeDate.parse / TimeSpan.parse.
"""
from __future__ import annotations

import datetime as dt
import itertools

import edzed
from edzed.blocklib import timeinterval as ti
from edzed.utils.tconst import MONTH_NAMES

from ..explore import Acc

PROPERTY = 'C13'
LEVEL = 'exploration'
LEVEL_TEXT = ("Exhaustive enumeration of a finite grid of intervals on the real TimeInterval / "
              "DateInterval / DateTimeInterval classes: every documented notation of every "
              "endpoint of the grid is generated from its numeric value and must normalise to "
              "that value; all ordered endpoint pairs of a reduced grid in every separator / "
              "delimiter / container form; membership compared with an independent arithmetic "
              "predicate at both endpoints, their neighbours, mid-range and far away; round "
              "trips; a grammar-derived malformed list; TimeDate.parse / TimeSpan.parse.")
LEVEL_NOTE = ("Pure functions: 'every input shape up to a bound against a reference model'. "
              "Combinations the docs declare ambiguous (bare hyphen separator with hyphenated "
              "endpoints, comma delimiter with a decimal comma) are excluded. ISO forms are those "
              "of Python's fromisoformat that the docs refer to (T prefix, basic/extended).")
TECHNIQUE = "exhaustive bounded input enumeration of the implementation vs. arithmetic reference"
RULE = ("a case = one (interval value, notation/container) pair or one (interval, probe moment) "
        "pair; generated from numbers; distinct by construction, counted; non-trivial = all")
ASSUMPTIONS = [
    "reference: times left-closed/right-open with wrap (equal endpoints = whole day), dates "
    "inclusive with year wrap, date-times never wrap (docs/sblocks2.rst)",
    "date probes are made with timeinterval.convert_date_seq([month, day]) as TimeDate does",
]

HOURS = [0, 1, 9, 12, 23]
MINUTES = [0, 1, 30, 59]
SECONDS = [0, 1, 59]
MICROS = [0, 1, 500000, 999999, 120000]
DIM = [0, 31, 29, 31, 30, 31, 30, 31, 31, 30, 31, 30, 31]


def configs(tier):
    out = [dict(kind='time-endpoints', hour=h) for h in HOURS]
    out += [dict(kind='date-endpoints', month=m) for m in range(1, 13)]
    out += [dict(kind='datetime-endpoints', year=y) for y in (1999, 2020, 2024)]
    out += [dict(kind='time-pairs', part=i) for i in range(8)]
    out += [dict(kind='date-pairs', part=i) for i in range(8)]
    out += [dict(kind='datetime-pairs', part=i) for i in range(4)]
    out += [dict(kind='multi', cls=c) for c in ('time', 'date', 'datetime')]
    # every 251st (thorough: 37th) microsecond value in the notations with a fraction
    stepus = 251 if tier == 'quick' else 37
    for part in range(8):
        out.append(dict(kind='time-micros', part=part, step=stepus))
    out += [dict(kind='malformed'), dict(kind='parse')]
    if tier == 'thorough':
        out += [dict(kind='date-membership', month=m) for m in range(1, 13)]
    return out


# ------------------------------------------------------------------ notation generators

def frac_variants(us):
    if not us:
        return []
    digits = f"{us:06d}"
    return sorted({digits, digits.rstrip('0')})


def time_notations(h, m, s, us, iso=True, seqs=True):
    """-> list of notations (str or sequence) of one time of day."""
    out = []
    hms = sorted({f"{h}:{m}:{s}", f"{h:02}:{m:02}:{s:02}", f"{h}:{m:02}:{s}", f"{h:02}:{m}:{s:02}"})
    if us == 0:
        if s == 0:
            out += sorted({f"{h}:{m}", f"{h:02}:{m:02}", f"{h}:{m:02}", f"{h:02}:{m}"})
        out += hms
    for fr in frac_variants(us):
        for mark in '.,':
            out += [x + mark + fr for x in hms]
    if iso:
        base = []
        if us == 0 and s == 0:
            base += [f"T{h:02}:{m:02}", f"T{h:02}{m:02}", f"{h:02}{m:02}"]
            if m == 0:
                base.append(f"T{h:02}")
        full = [f"T{h:02}:{m:02}:{s:02}", f"T{h:02}{m:02}{s:02}", f"{h:02}{m:02}{s:02}"]
        if us == 0:
            base += full
        for fr in frac_variants(us):
            for mark in '.,':
                base += [x + mark + fr for x in full]
        out += base
    out += [' ' + out[0] + '  ']
    if seqs:
        full = [h, m, s, us]
        n = 4
        while n > 1 and full[n - 1] == 0:
            n -= 1
        for k in range(n, 5):
            out.append(full[:k])
        out.append(tuple(full))
    return out


def month_variants(mo, reduced=False):
    name = MONTH_NAMES[mo]
    out = []
    lens = range(3, len(name) + 1) if not reduced else sorted({3, len(name)})
    for ln in lens:
        ab = name[:ln]
        out += [ab.lower(), ab.upper(), ab.capitalize()]
    if not reduced and len(name) > 3:
        out.append(name[:3].lower() + name[3:].upper())     # mixed case
    return sorted(set(out))


def date_notations(mo, d, reduced=False, seqs=True):
    out = []
    for mon in month_variants(mo, reduced):
        for dd in sorted({str(d), f"{d:02}"}):
            out += [f"{mon} {dd}", f"{dd} {mon}", f"{dd}.{mon}", f"{dd}. {mon}", f"{mon}. {dd}",
                    f"{mon}.{dd}", f"{dd}{mon}", f"{mon}{dd}", f"{dd}.{mon}.", f"{mon} {dd}.",
                    f"  {mon}   {dd} "]
    out += [f"--{mo:02}{d:02}", f"--{mo:02}-{d:02}"]
    if seqs:
        out += [[mo, d], (mo, d)]
    return out


def datetime_notations(y, mo, d, h, mi, s, us, seqs=True):
    out = []
    tstrs = [t for t in time_notations(h, mi, s, us, iso=False, seqs=False) if t == t.strip()]
    tsel = [tstrs[0], tstrs[-1]] if len(tstrs) > 1 else tstrs
    mons = month_variants(mo, reduced=True)
    # format 1: YYYY month day time, parts in any order
    for ti_, t in enumerate(tsel):
        for mi_, mon in enumerate(mons):
            for day in (str(d), f"{d:02}", f"{d}."):
                parts = [str(y), mon, day, t]
                perms = list(itertools.permutations(parts))
                if ti_ or mi_ > 1:
                    perms = perms[::5]
                for p in perms:
                    out.append(' '.join(p))
            out.append(f"{y} {mon}. {d} {t}")
            out.append(f"  {t}   {mon} {d}.  {y} ")
    # formats 2 and 3: YYYY-MM-DD / YYYY-month-DD + time, both orders
    for t in tsel:
        for datepart in [f"{y}-{mo:02}-{d:02}"] + [f"{y}-{mon}-{d:02}" for mon in month_variants(mo)]:
            out += [f"{datepart} {t}", f"{t} {datepart}"]
    # ISO 8601
    ext = f"{y}-{mo:02}-{d:02}T{h:02}:{mi:02}"
    bas = f"{y}{mo:02}{d:02}T{h:02}{mi:02}"
    if us == 0:
        if s == 0:
            out += [ext, bas]
        out += [f"{ext}:{s:02}", f"{bas}{s:02}"]
    for fr in frac_variants(us):
        for mark in '.,':
            out += [f"{ext}:{s:02}{mark}{fr}", f"{bas}{s:02}{mark}{fr}"]
    if seqs:
        full = [y, mo, d, h, mi, s, us]
        n = 7
        while n > 5 and full[n - 1] == 0:
            n -= 1
        for k in range(n, 8):
            out.append(full[:k])
        out.append(tuple(full))
    return out


# ------------------------------------------------------------------ reference

def time_us(t4):
    h, m, s, us = t4
    return ((h * 60 + m) * 60 + s) * 1_000_000 + us


def ref_time_in(rng, x):
    a, b = time_us(rng[0]), time_us(rng[1])
    x = time_us(x)
    if a < b:
        return a <= x < b
    return x >= a or x < b


def ref_date_in(rng, x):
    a, b, x = tuple(rng[0]), tuple(rng[1]), tuple(x)
    if a <= b:
        return a <= x <= b
    return x >= a or x <= b


def ref_dt_in(rng, x):
    return tuple(rng[0]) <= tuple(x) < tuple(rng[1])


CLS = {
    'time': (ti.TimeInterval, ref_time_in, lambda v: dt.time(*v)),
    'date': (ti.DateInterval, ref_date_in, lambda v: ti.convert_date_seq(list(v))),
    'datetime': (ti.DateTimeInterval, ref_dt_in, lambda v: dt.datetime(*v)),
}


def has(n, ch):
    return isinstance(n, str) and ch in n


def range_forms(a, b, rclosed_single=False):
    """All container forms of a one-range interval with endpoint notations a, b."""
    out = []
    if isinstance(a, str) and isinstance(b, str):
        seps = ['/', ' / ', ' - ', '  -  ']
        if not (has(a, '-') or has(b, '-')):
            seps.append('-')
        for sep in seps:
            r = f"{a}{sep}{b}"
            forms = [r + ';', ' ' + r + ' ; ', [r], (r,), {r}, [r + ' ']]
            if not (has(a, ',') or has(b, ',')):
                # a decimal comma makes the terminating semicolon mandatory (docs, 3A)
                forms += [r, r + ',', r + ' , ']
            out += forms
    out += [[[a, b]], ((a, b),), [(a, b)]]
    if not isinstance(a, str) and not isinstance(b, str):
        try:
            out.append({(tuple(a), tuple(b))})
        except TypeError:
            pass
    return out


def check_norm(cls, arg, expected, acc, cfg, what):
    acc.execs += 1
    acc.distinct += 1
    try:
        obj = cls(arg)
        got = obj.as_list()
    except Exception as err:    # pylint: disable=broad-except
        acc.violation(f'C13:notation-rejected:{what}',
                      f"{cls.__name__}({arg!r}) raised {type(err).__name__}: {err}; expected {expected}",
                      cfg=cfg, detail={'arg': repr(arg)})
        return None
    if got != expected:
        acc.violation(f'C13:normal-form:{what}',
                      f"{cls.__name__}({arg!r}).as_list() = {got}, expected {expected}",
                      cfg=cfg, detail={'arg': repr(arg)})
        return None
    return obj


def check_roundtrip(cls, obj, acc, cfg, what):
    lst = obj.as_list()
    for via, arg in (('as_list', lst), ('as_string', obj.as_string())):
        acc.execs += 1
        try:
            back = cls(arg).as_list()
        except Exception as err:    # pylint: disable=broad-except
            acc.violation(f'C13:roundtrip:{what}', f"{cls.__name__}({arg!r}) (from {via}()) raised {err!r}",
                          cfg=cfg)
            continue
        if back != lst:
            acc.violation(f'C13:roundtrip:{what}',
                          f"{cls.__name__}({arg!r}) (from {via}() of {lst}) gives {back}", cfg=cfg)
    if not all(isinstance(x, int) and not isinstance(x, bool)
               for rng in lst for ep in rng for x in ep):
        acc.violation(f'C13:normal-form:{what}', f"as_list() has non-integers: {lst}", cfg=cfg)


def check_membership(kind, obj, ranges, probes, acc, cfg):
    _cls, ref, mk = CLS[kind]
    for x in probes:
        acc.execs += 1
        acc.distinct += 1
        exp = any(ref(r, x) for r in ranges)
        try:
            got = mk(x) in obj
        except Exception as err:    # pylint: disable=broad-except
            acc.violation(f'C13:membership:{kind}', f"{x} in {obj}: raised {err!r}", cfg=cfg)
            continue
        if got != exp:
            acc.violation(f'C13:membership:{kind}',
                          f"{x} in {obj} = {got}, expected {exp} (ranges {ranges})", cfg=cfg,
                          detail={'ranges': ranges, 'probe': list(x)})


def us_to_time(us):
    us %= 86_400_000_000
    s, us = divmod(us, 1_000_000)
    m, s = divmod(s, 60)
    h, m = divmod(m, 60)
    return [h, m, s, us]


def time_probes(ranges):
    ps = {0, 1, 86_400_000_000 - 1, 43_200_000_000}
    for a, b in ranges:
        ua, ub = time_us(a), time_us(b)
        for u in (ua, ub):
            ps |= {u, u - 1, u + 1}
        ps.add((ua + ub) // 2)
        ps.add(((ua + ub) // 2 + 43_200_000_000))
    return [us_to_time(p) for p in sorted({p % 86_400_000_000 for p in ps})]


def doy(md):
    return sum(DIM[1:md[0]]) + md[1] - 1


def from_doy(n):
    n %= 366
    mo = 1
    while n >= DIM[mo]:
        n -= DIM[mo]
        mo += 1
    return [mo, n + 1]


def date_probes(ranges):
    ps = {0, 365, 59, 60, 182}
    for a, b in ranges:
        for u in (doy(a), doy(b)):
            ps |= {u, u - 1, u + 1}
        ps.add((doy(a) + doy(b)) // 2)
        ps.add((doy(a) + doy(b)) // 2 + 183)
    return [from_doy(p) for p in sorted({p % 366 for p in ps})]


def dt_probes(ranges):
    ps = set()
    for a, b in ranges:
        for e in (a, b):
            x = dt.datetime(*e)
            for dlt in (dt.timedelta(0), dt.timedelta(microseconds=1), -dt.timedelta(microseconds=1),
                        dt.timedelta(days=1), -dt.timedelta(days=1), dt.timedelta(days=400),
                        -dt.timedelta(days=400)):
                ps.add(x + dlt)
        xa, xb = dt.datetime(*a), dt.datetime(*b)
        ps.add(xa + (xb - xa) / 2)
    return [[p.year, p.month, p.day, p.hour, p.minute, p.second, p.microsecond] for p in sorted(ps)]


PROBES = {'time': time_probes, 'date': date_probes, 'datetime': dt_probes}


# ------------------------------------------------------------------ config runners

def run_time_endpoints(cfg, acc):
    h = cfg['hour']
    cls = ti.TimeInterval
    other = [7, 7, 7, 7]
    for m in MINUTES:
        for s in SECONDS:
            for us in MICROS:
                v = [h, m, s, us]
                for n in time_notations(h, m, s, us):
                    for pos in (0, 1):
                        if isinstance(n, str):
                            arg = f"{n}/7:7:7.000007;" if pos == 0 else f"T07:07:07,000007 / {n};"
                        else:
                            arg = [[n, other]] if pos == 0 else [[other, n]]
                        exp = [[v, other]] if pos == 0 else [[other, v]]
                        check_norm(cls, arg, exp, acc, cfg, 'time')
    acc.sample({'kind': 'time-endpoints', 'value': [h, 59, 59, 500000],
                'notations': [repr(x) for x in time_notations(h, 59, 59, 500000)[:6]]}, limit=1)


def run_time_micros(cfg, acc):
    cls = ti.TimeInterval
    dcls = ti.DateTimeInterval
    other = [7, 7, 7, 7]
    n = 0
    for us in range(1 + cfg['part'] * cfg['step'], 1_000_000, 8 * cfg['step']):
        n += 1
        h, m, s = (9, 5, 7) if n % 2 else (23, 59, 59)
        v = [h, m, s, us]
        digits = f"{us:06d}"
        for fr in sorted({digits, digits.rstrip('0')}):
            for mark in '.,':
                for body in (f"{h}:{m}:{s}", f"{h:02}:{m:02}:{s:02}", f"T{h:02}{m:02}{s:02}"):
                    check_norm(cls, f"{body}{mark}{fr}/7:7:7.000007;", [[v, other]], acc, cfg, 'time')
                check_norm(dcls, f"2020 Mar 1 {h}:{m}:{s}{mark}{fr} / 2030-01-01T00:00;",
                           [[[2020, 3, 1] + v, [2030, 1, 1, 0, 0, 0, 0]]], acc, cfg, 'datetime')
    acc.sample({'kind': 'time-micros', 'values': n}, limit=1)


def run_date_endpoints(cfg, acc):
    mo = cfg['month']
    cls = ti.DateInterval
    other = [7, 7]
    for d in range(1, DIM[mo] + 1):
        v = [mo, d]
        for n in date_notations(mo, d):
            for pos in (0, 1, 2):
                if pos == 2:
                    # single date = one-day range (documented for strings)
                    if not isinstance(n, str):
                        continue
                    arg, exp = n, [[v, v]]
                elif isinstance(n, str):
                    arg = f"{n} / jul 7;" if pos == 0 else f"--0707/{n}"
                    exp = [[v, other]] if pos == 0 else [[other, v]]
                else:
                    arg = [[n, other]] if pos == 0 else [[other, n]]
                    exp = [[v, other]] if pos == 0 else [[other, v]]
                check_norm(cls, arg, exp, acc, cfg, 'date')
    acc.sample({'kind': 'date-endpoints', 'value': [mo, 9],
                'notations': [repr(x) for x in date_notations(mo, 9)[:8]]}, limit=1)


DT_DATES = [(1, 1), (2, 28), (2, 29), (3, 1), (6, 30), (10, 10), (12, 31)]
DT_TIMES = [(0, 0, 0, 0), (6, 45, 0, 0), (12, 0, 30, 0), (23, 59, 59, 999999), (8, 0, 0, 500000)]


def run_datetime_endpoints(cfg, acc):
    y = cfg['year']
    cls = ti.DateTimeInterval
    other = [2000, 7, 7, 7, 7, 7, 7]
    for (mo, d) in DT_DATES:
        if (mo, d) == (2, 29) and y % 4:
            continue
        for (h, mi, s, us) in DT_TIMES:
            v = [y, mo, d, h, mi, s, us]
            for n in datetime_notations(*v):
                for pos in (0, 1):
                    if isinstance(n, str):
                        arg = f"{n} / 2000-07-07T07:07:07.000007;" if pos == 0 \
                            else f"7 jul 2000 7:7:7,000007/{n};"
                    else:
                        arg = [[n, other]] if pos == 0 else [[other, n]]
                    exp = [[v, other]] if pos == 0 else [[other, v]]
                    check_norm(cls, arg, exp, acc, cfg, 'datetime')
    acc.sample({'kind': 'datetime-endpoints', 'value': [y, 10, 10, 6, 45, 0, 0],
                'notations': [repr(x) for x in datetime_notations(y, 10, 10, 6, 45, 0, 0)[:6]]}, limit=1)


PAIR_TIMES = [[0, 0, 0, 0], [0, 0, 0, 1], [1, 30, 0, 0], [9, 1, 59, 0], [12, 0, 0, 0],
              [12, 0, 0, 500000], [23, 50, 0, 0], [23, 59, 59, 999999]]
PAIR_DATES = [[1, 1], [1, 15], [2, 28], [2, 29], [3, 1], [6, 30], [12, 10], [12, 31]]
PAIR_DTS = [[1999, 12, 31, 23, 59, 59, 999999], [2020, 1, 1, 0, 0, 0, 0], [2020, 2, 29, 12, 0, 0, 0],
            [2020, 3, 1, 12, 0, 30, 0], [2020, 3, 1, 12, 0, 30, 1], [2024, 12, 31, 6, 45, 0, 0]]


def pick_notations(kind, v):
    """A spread of notations of one endpoint for the pair tests (strings and sequences)."""
    if kind == 'time':
        ns = time_notations(*v)
    elif kind == 'date':
        ns = date_notations(*v, reduced=True)
    else:
        ns = datetime_notations(*v)
    strs = [n for n in ns if isinstance(n, str)]
    seqs = [n for n in ns if not isinstance(n, str)]
    step = max(1, len(strs) // 7)
    return strs[::step][:8] + seqs[:2]


def run_pairs(cfg, acc):
    kind = cfg['kind'].split('-')[0]
    vals = {'time': PAIR_TIMES, 'date': PAIR_DATES, 'datetime': PAIR_DTS}[kind]
    cls = CLS[kind][0]
    nparts = 4 if kind == 'datetime' else 8
    pairs = [(a, b) for a in vals for b in vals]
    for idx, (a, b) in enumerate(pairs):
        if idx % nparts != cfg['part']:
            continue
        exp = [[a, b]]
        nas, nbs = pick_notations(kind, a), pick_notations(kind, b)
        obj = None
        for i, na in enumerate(nas):
            for j, nb in enumerate(nbs):
                if (i + j) % 3 and not (i == 0 or j == 0):
                    continue
                for arg in range_forms(na, nb):
                    o = check_norm(cls, arg, exp, acc, cfg, kind)
                    obj = obj or o
        if kind == 'date' and a == b:
            for n in date_notations(*a, reduced=True):
                if isinstance(n, str):
                    forms = [n, n + ';', [n], {n}, (n,)]
                    if ',' not in n:
                        forms.append(n + ',')
                    for arg in forms:
                        check_norm(cls, arg, exp, acc, cfg, 'date-single')
        if obj is not None:
            check_roundtrip(cls, obj, acc, cfg, kind)
            check_membership(kind, obj, exp, PROBES[kind](exp), acc, cfg)
    acc.sample({'kind': cfg['kind'], 'example_forms': [repr(x) for x in range_forms(
        pick_notations(kind, vals[1])[0], pick_notations(kind, vals[2])[1])[:6]]}, limit=1)


def run_multi(cfg, acc):
    """Intervals of 0, 2 and 3 ranges: sorted normal form, union membership, mixed forms."""
    kind = cfg['cls']
    cls = CLS[kind][0]
    vals = {'time': PAIR_TIMES, 'date': PAIR_DATES, 'datetime': PAIR_DTS}[kind]
    ranges = [(a, b) for a in vals[::2] for b in vals[1::2]] + [(vals[3], vals[3]), (vals[5], vals[2])]
    for empty in ('', ' ', [], (), set()):
        o = check_norm(cls, empty, [], acc, cfg, kind + '-empty')
        if o is not None:
            check_roundtrip(cls, o, acc, cfg, kind + '-empty')
            check_membership(kind, o, [], PROBES[kind]([[vals[0], vals[1]]]), acc, cfg)
    nota = {repr(v): pick_notations(kind, v) for v in vals}
    combos = list(itertools.combinations(range(len(ranges)), 2))
    combos += [(i, j, k) for (i, j) in combos[::9] for k in range(0, len(ranges), 5)]
    for ci, idxs in enumerate(combos):
        rs = [list(ranges[i]) for i in idxs]
        exp = sorted([[list(a), list(b)] for a, b in rs])
        variants = []
        for shift in (0, 1, 2):
            strs = []
            for k, (a, b) in enumerate(rs):
                na = [n for n in nota[repr(a)] if isinstance(n, str)]
                nb = [n for n in nota[repr(b)] if isinstance(n, str)]
                strs.append(f"{na[(ci + k + shift) % len(na)]} / {nb[(ci + 2 * k + shift) % len(nb)]}")
            nocomma = not any(',' in s for s in strs)
            variants += ['; '.join(strs), ';'.join(strs) + ';', list(strs), tuple(reversed(strs)),
                         set(strs)]
            if nocomma:
                variants += [', '.join(strs), ','.join(strs) + ',']
        variants.append([[a, b] for a, b in rs])
        variants.append([[a, b] for a, b in reversed(rs)])
        variants.append([[tuple(a), f"{[n for n in nota[repr(b)] if isinstance(n, str)][0]}"]
                         for a, b in rs])
        obj = None
        for arg in variants:
            o = check_norm(cls, arg, exp, acc, cfg, kind + '-multi')
            obj = obj or o
        if obj is not None:
            check_roundtrip(cls, obj, acc, cfg, kind + '-multi')
            check_membership(kind, obj, exp, PROBES[kind](exp), acc, cfg)


def run_date_membership(cfg, acc):
    """thorough: every (start, stop) with start in one month x every day of the year."""
    mo = cfg['month']
    cls = ti.DateInterval
    days = [[m, d] for m in range(1, 13) for d in range(1, DIM[m] + 1)]
    for d in range(1, DIM[mo] + 1, 3):
        for stop in days[::5]:
            rng = [[mo, d], stop]
            obj = cls([rng])
            check_membership('date', obj, [rng], days[::2], acc, cfg)


MALFORMED = {
    'time': ['24:00', '12:60', '12:00:60', '1:2:3:4', 'noon', '12:00 PM', '12:00+01:00', '12:00Z',
             '-1:00', ':30', '12:', '1200:00', 'T25', 'T1260', '12;00',
             [24], [12, 60], [12, 0, 60], [12, 0, 0, 1000000], [], [1, 2, 3, 4, 5], [-1], ['12']],
    'date': ['Feb 30', 'Apr 31', 'Foo 1', 'Ma 1', 'March', '13', '--1301', '--0230', '--0100',
             'Jan 0', 'Jan 32', 'Jan 1 2020', 'Jan 1 Feb', 'Jan Feb 1', '1 1 Jan', 'Jan 1 x',
             'x Jan 1', '--011', '-0101', 'Juno 1', 'Marchx 1',
             # a component in the middle with non-blank neighbours (the rest must not be glued together)
             '1may5', '1 may5', '2jan9', 'ja1n 5',
             [13, 1], [2, 30], [0, 1], [1, 0], [1], [1, 2, 3], []],
    'datetime': ['2020-02-30 12:00', '2020-13-01 12:00', 'March 1 12:00', '2020 March 12:00',
                 '2020 1 12:00', '2020 March 1', '2020-03-01', '2020-03-01T12:00+01:00',
                 '2020-03-01T12:00Z', '20 March 1 12:00', '2019-02-29T00:00', '2019 Feb 29 0:00',
                 '2020 March 1 24:00', '2020 March 1 12:00 x', '2020 2021 March 1 12:00',
                 '2020 March April 1 12:00', '2020 March 1 2 12:00',
                 'May 112:305 2024', 'ma2024y 5 10:00', '20may24 5 10:00', 'May 5 20 10:00 24',
                 [2020, 3, 1, 12], [2020, 3, 1, 12, 0, 0, 0, 0], [2019, 2, 29, 0, 0],
                 [2020, 3, 1, 24, 0], [2020, 3]],
}
GOOD = {'time': '10:00', 'date': 'Jan 1', 'datetime': '2020-01-01 10:00'}
GOODSEQ = {'time': [10, 0], 'date': [1, 1], 'datetime': [2020, 1, 1, 10, 0]}


def run_malformed(cfg, acc):
    for kind, (cls, _ref, _mk) in CLS.items():
        good, goodseq = GOOD[kind], GOODSEQ[kind]
        args = []
        for bad in MALFORMED[kind]:
            if isinstance(bad, str):
                args += [f"{bad} / {good}", f"{good} / {bad};", [[bad, goodseq]], [f"{good}/{bad}"]]
            else:
                args += [[[bad, goodseq]], [[goodseq, bad]], [[bad, good]]]
        # malformed ranges / intervals
        args += [f"{good}/{good}/{good}", [[goodseq, goodseq, goodseq]], [[]], [goodseq, goodseq],
                 f"{good} / {good} ; ; {good}/{good}", 5, None, 3.5, object(), [5], [None],
                 [[goodseq, None]], [[goodseq, 5]], f"{good} / ", f" / {good}", "/", ";"]
        if kind != 'date':
            args += [good, [good], [[goodseq]], good + ';']     # a single value is not a range
        else:
            args += [[[goodseq, goodseq], [goodseq]][1:] and "Jan 1 - Feb 1 - Mar 1"]
        for arg in args:
            acc.execs += 1
            acc.distinct += 1
            try:
                obj = cls(arg)
            except Exception:   # pylint: disable=broad-except
                continue
            acc.violation(f'C13:malformed-accepted:{kind}',
                          f"{cls.__name__}({arg!r}) accepted as {obj.as_list()}", cfg=cfg,
                          detail={'arg': repr(arg)})
    acc.sample({'kind': 'malformed', 'examples': MALFORMED['date'][:6]})


def run_parse(cfg, acc):
    TD, TS = edzed.TimeDate, edzed.TimeSpan
    wd_cases = [("12345", [1, 2, 3, 4, 5]), ("67", [6, 7]), ("0", [7]), ("07", [7]), ("70", [7]),
                ([0, 7], [7]), ("1 2\t3", [1, 2, 3]), ([5, 1, 3], [1, 3, 5]), ("531", [1, 3, 5]),
                ([1, 1, 2], [1, 2]), ("", []), ([], []), ((6, 0), [6, 7]), ("0123456", [1, 2, 3, 4, 5, 6, 7]),
                (None, None)]
    for arg, exp in wd_cases:
        acc.execs += 1
        acc.distinct += 1
        try:
            got = TD.parse(None, None, arg)
        except Exception as err:    # pylint: disable=broad-except
            acc.violation('C13:weekdays', f"TimeDate.parse(None, None, {arg!r}) raised {err!r}", cfg=cfg)
            continue
        if got != {'times': None, 'dates': None, 'weekdays': exp}:
            acc.violation('C13:weekdays', f"TimeDate.parse(None, None, {arg!r}) = {got}, expected "
                          f"weekdays {exp}", cfg=cfg)
    for arg in ("8", "a", "1,2", [8], [-1], "1-5", 5):
        acc.execs += 1
        acc.distinct += 1
        try:
            got = TD.parse(None, None, arg)
        except Exception:   # pylint: disable=broad-except
            continue
        acc.violation('C13:weekdays-malformed-accepted', f"TimeDate.parse(weekdays={arg!r}) = {got}",
                      cfg=cfg)
    # parse() agrees with the interval classes for every notation family
    t_args = ["23:50 - 01:30, 3:20-5:10", "T2350 / T0130; T03:20/T05:10;",
              [[[23, 50], [1, 30]], [[3, 20], [5, 10]]],
              [[[23, 50, 0, 0], [1, 30, 0, 0]], [[3, 20, 0, 0], [5, 10, 0, 0]]]]
    t_exp = [[[3, 20, 0, 0], [5, 10, 0, 0]], [[23, 50, 0, 0], [1, 30, 0, 0]]]
    d_args = [("02Mar-15MAR, 9.july - 20.aug.", [[[3, 2], [3, 15]], [[7, 9], [8, 20]]]),
              ("Sept1-Sept2, DEC 31 - JAN 05", [[[9, 1], [9, 2]], [[12, 31], [1, 5]]]),
              ("--0901/--0902; --1231/--0105;", [[[9, 1], [9, 2]], [[12, 31], [1, 5]]]),
              ("May 4", [[[5, 4], [5, 4]]]),
              ([[[3, 2], [3, 15]], [[7, 9], [8, 20]]], [[[3, 2], [3, 15]], [[7, 9], [8, 20]]]),
              ([[[5, 4], [5, 4]]], [[[5, 4], [5, 4]]])]
    for targ in t_args + [None]:
        for darg, dexp in d_args + [(None, None)]:
            for warg, wexp in (("12345", [1, 2, 3, 4, 5]), (None, None)):
                acc.execs += 1
                acc.distinct += 1
                exp = {'times': None if targ is None else t_exp, 'dates': dexp, 'weekdays': wexp}
                try:
                    got = TD.parse(targ, darg, warg)
                except Exception as err:    # pylint: disable=broad-except
                    acc.violation('C13:timedate-parse', f"TimeDate.parse({targ!r}, {darg!r}, {warg!r}) "
                                  f"raised {err!r}", cfg=cfg)
                    continue
                if got != exp:
                    acc.violation('C13:timedate-parse', f"TimeDate.parse({targ!r}, {darg!r}, {warg!r}) "
                                  f"= {got}, expected {exp}", cfg=cfg)
    s_exp = [[[2020, 3, 1, 12, 0, 0, 0], [2020, 3, 7, 18, 30, 0, 0]],
             [[2020, 10, 10, 10, 30, 0, 0], [2020, 10, 10, 22, 0, 0, 0]]]
    s_args = ["2020 March 1 12:00 - 2020 March 7 18:30,10:30 Oct. 10 2020 - 22:00 Oct.10 2020",
              [[[2020, 3, 1, 12, 0], [2020, 3, 7, 18, 30]],
               [[2020, 10, 10, 10, 30, 0], [2020, 10, 10, 22, 0, 0]]],
              "2020-10-10T10:30/2020-10-10T22:00; 20200301T1200 / 20200307T183000;",
              ["10 OCT 2020 10:30 / 2020-oct-10 22:00", [[2020, 3, 1, 12, 0], "2020-03-07 18:30"]]]
    for sarg in s_args:
        acc.execs += 1
        acc.distinct += 1
        try:
            got = TS.parse(sarg)
        except Exception as err:    # pylint: disable=broad-except
            acc.violation('C13:timespan-parse', f"TimeSpan.parse({sarg!r}) raised {err!r}", cfg=cfg)
            continue
        if got != s_exp:
            acc.violation('C13:timespan-parse', f"TimeSpan.parse({sarg!r}) = {got}, expected {s_exp}",
                          cfg=cfg)
    if TS.parse(()) != [] or TS.parse('') != []:
        acc.violation('C13:timespan-parse', "empty span does not parse to []", cfg=cfg)


def run_config(cfg):
    acc = Acc()
    kind = cfg['kind']
    if kind.endswith('-pairs'):
        run_pairs(cfg, acc)
    else:
        {'time-endpoints': run_time_endpoints, 'time-micros': run_time_micros, 'date-endpoints': run_date_endpoints,
         'datetime-endpoints': run_datetime_endpoints, 'multi': run_multi,
         'malformed': run_malformed, 'parse': run_parse,
         'date-membership': run_date_membership}[kind](cfg, acc)
    return acc

"""
C10 - a circuit that cannot settle is stopped with an error; one that settles is not.

ALL directed networks (cycles and self-loops included) of <= 3 (quick) / 4 (thorough) gates from
{not, identity, xor2, and2} over 1-2 Inputs, optionally with a feedback path closed through an
on_output event into an Input, are run on the real simulator for every input vector, every
input change and every rank permutation of the gates.  Brute force over all gate-output
assignments decides whether a consistent state exists.
"""
from __future__ import annotations

import asyncio
import itertools

import edzed

from ..explore import Acc
from ..harness import Sim, stop
from .. import nets

PROPERTY = 'C10'
LEVEL = 'model_checking'
LEVEL_TEXT = ("Bounded exhaustive model checking of the real simulator: every directed network "
              "(cyclic or not) of <=3 (thorough: 4) gates over 1-2 inputs, with and without an "
              "event feedback path, for every input vector, every input change and every rank "
              "permutation; a brute-force search over all output assignments decides whether a "
              "consistent state exists; evaluations are counted by instrumented gate functions.")
LEVEL_NOTE = ("No consistent assignment => must end with the instability EdzedCircuitError after "
              "at most 10 x blocks evaluations in the burst; acyclic => never reported (all acyclic "
              "networks of this size are within 3 x blocks worst-case evaluations); cyclic with a "
              "consistent assignment => either outcome, but idle implies consistent.")
TECHNIQUE = ("explicit-state model checking of the implementation (all small directed networks x "
             "inputs x set orders) vs. brute-force fixed-point search")
RULE = ("a case = (network, rank permutation, start vector, target vector); outcome = (network, "
        "vectors, died/settled, outputs); distinct = distinct outcomes")
ASSUMPTIONS = [
    "gates are FuncBlocks with instrumented pure functions; event feedback is a plain 'put' of "
    "the gate's output into an Input (identity on settled values)",
    "the instability error is recognised as EdzedCircuitError mentioning 'instability'",
]

KINDS = ('not', 'id', 'xor', 'and')
MAX_CALLS = 2000


class Runaway(Exception):
    """The evaluation loop did not stop by itself (harness guard against a hang)."""


def gate_fn(kind, vals):
    if kind == 'not':
        return not vals[0]
    if kind == 'id':
        return bool(vals[0])
    if kind == 'xor':
        return bool(vals[0]) != bool(vals[1])
    return bool(vals[0]) and bool(vals[1])


def gate_options(refs, kinds):
    out = []
    for kind in kinds:
        if kind in ('not', 'id'):
            out += [(kind, (r,)) for r in refs]
        else:
            out += [(kind, p) for p in itertools.combinations_with_replacement(refs, 2)]
    return out


def networks(k, m, kinds, ev):
    """ev: None or index of the gate whose on_output event drives the extra Input 'e'."""
    refs = [('s', i) for i in range(k)] + [('g', j) for j in range(m)]
    if ev is not None:
        refs.append(('e',))
    opts = gate_options(refs, kinds)
    for gates in itertools.product(opts, repeat=m):
        if ev is not None and not any(s == ('e',) for g in gates for s in g[1]):
            continue
        yield gates


def configs(tier):
    out = []

    def add(k, m, kinds, ev):
        for gates in networks(k, m, kinds, ev):
            out.append(dict(k=k, gates=gates, ev=ev))
    add(1, 1, KINDS, None)
    add(2, 1, KINDS, None)
    add(1, 1, KINDS, 0)
    add(1, 2, KINDS, None)
    add(2, 2, KINDS, None)
    add(1, 2, KINDS, 0)
    add(1, 2, KINDS, 1)
    add(1, 3, KINDS, None)
    add(1, 3, ('not', 'xor'), 0)
    # the same small networks with an input whose own output event fails (non-fatal error)
    n0 = len(out)
    add(1, 1, KINDS, None)
    add(1, 2, KINDS, None)
    add(2, 2, ('not', 'xor', 'and'), None)
    for c in out[n0:]:
        c['badev'] = True
    if tier == 'thorough':
        add(2, 3, KINDS, None)
        add(1, 3, KINDS, 0)
        add(1, 3, KINDS, 2)
        add(1, 4, ('not', 'xor'), None)
    # deep acyclic ladders / diamonds: many reconvergent paths, never unstable
    for n in (5, 6, 8):
        for kind in ('xor', 'and'):
            out.append(dict(k=2, ladder=n, gates=tuple(
                (kind, (('g', j - 1) if j >= 1 else ('s', 0), ('g', j - 2) if j >= 2 else ('s', 1)))
                for j in range(n)), ev=None))
    # event cascades S0 -> C1 => S1 -> C2 => ... (=> is an on_output 'put' event) observed by m
    # xor gates connected to every S: acyclic, evaluations in one wave <= paths = k + m(k+1);
    # all sizes whose path count stays within 3 x blocks (the documented margin)
    for k in range(1, 9):
        for m in range(0, 9):
            for extra in (0, 1, 3):
                nblocks = 2 * k + 1 + m + extra
                if k + m * (k + 1) <= 3 * nblocks and (m > 0 or extra == 0):
                    out.append(dict(cascade=(k, m, extra)))
    # inverted-output shortcuts of a COMBINATIONAL block inside long chains: src -> x -> '_not_x'
    # -> u1 .. uN, some of the u's tapping '_not_x' a second time; paths within 3 x blocks
    for n in (6, 12, 20, 30, 48, 90, 200):
        cand = list(range(2, n, 2 if n < 20 else 3 if n == 20 else 7 if n < 90 else 31))
        for k in range(0, 5 if n <= 20 else 2):
            for taps in itertools.combinations(cand, k):
                nblocks = n + 3
                paths = 2 + sum(1 + sum(1 for t in taps if t <= i) for i in range(1, n + 1))
                if paths <= 3 * nblocks:
                    out.append(dict(notchain=(n, taps)))
    # values that compare equal but are distinguishable (1 / True / 1.0 ...): whatever a block
    # shows at idle, its successors were computed from exactly that
    for table in ((1, True, 1.0, 2, 2.0), (0, False, 0.0, -0.0, ''), ((1,), (True,), (1.0,), (), [])):
        for depth in (1, 2, 3):
            out.append(dict(typed=(table, depth)))
    return out


# ------------------------------------------------------------------ reference

def consistent_assignments(cfg, vec):
    m = len(cfg['gates'])
    sols = []
    for outs in itertools.product((False, True), repeat=m):
        e = outs[cfg['ev']] if cfg['ev'] is not None else None

        def val(s):
            return vec[s[1]] if s[0] == 's' else outs[s[1]] if s[0] == 'g' else e
        if all(gate_fn(kind, [val(s) for s in slots]) == outs[j]
               for j, (kind, slots) in enumerate(cfg['gates'])):
            sols.append(outs)
    return sols


def is_acyclic(cfg):
    m = len(cfg['gates'])
    preds = {j: set() for j in range(m)}
    for j, (_kind, slots) in enumerate(cfg['gates']):
        for s in slots:
            if s[0] == 'g':
                preds[j].add(s[1])
            elif s[0] == 'e':
                preds[j].add(cfg['ev'])
    done = set()
    while len(done) < m:
        ready = [j for j in range(m) if j not in done and preds[j] <= done]
        if not ready:
            return False
        done.update(ready)
    return True


# ------------------------------------------------------------------ execution

def run_case(cfg, perm, start, targets, acc):
    """
    Start at input vector `start`, then go to each of `targets` and back.  Returns
    (violations, index of the target at which the simulation died or None).
    """
    viol = []
    calls = [0]
    k, m = cfg['k'], len(cfg['gates'])
    died_at = None
    with Sim() as sim:
        nets.install_rank_hash()
        if cfg.get('badev'):
            edzed.Input('sinkx', initdef=0)
            srcs = [edzed.Input(f's{i}', initdef=start[i], on_output=edzed.Event(
                'sinkx', 'no_such_event', efilter=edzed.not_from_undef)) for i in range(k)]
        else:
            srcs = [edzed.Input(f's{i}', initdef=start[i]) for i in range(k)]
        evin = edzed.Input('e', initdef=False) if cfg['ev'] is not None else None
        gates = []

        def mkfn(kind):
            def fn(*vals):
                calls[0] += 1
                if calls[0] > MAX_CALLS:
                    raise Runaway(f"more than {MAX_CALLS} evaluations in one burst")
                return gate_fn(kind, vals)
            return fn
        for j, (kind, _slots) in enumerate(cfg['gates']):
            kw = {}
            if cfg['ev'] == j:
                kw['on_output'] = edzed.Event(evin, 'put')
            gates.append(edzed.FuncBlock(f'g{j}', func=mkfn(kind), **kw))
        for j, (_kind, slots) in enumerate(cfg['gates']):
            gates[j].connect(*[f's{s[1]}' if s[0] == 's' else f'g{s[1]}' if s[0] == 'g' else 'e'
                               for s in slots])
        nets.set_ranks(gates, perm)
        nblocks = k + m + (1 if evin is not None else 0) + (1 if cfg.get('badev') else 0)
        acyclic = is_acyclic(cfg)

        def judge(vec, task, label):
            """-> True if the simulation is dead"""
            sols = consistent_assignments(cfg, vec)
            dead = task.done()
            n = calls[0]
            calls[0] = 0
            err = sim.circuit.error
            acc.outcome((cfg_key(cfg), label, vec, dead, tuple(g.output for g in gates) if not dead else None))
            if isinstance(err, Runaway) or (dead and isinstance(task.exception(), Runaway)):
                viol.append(('unbounded-evaluation', f"{label} {vec}: {n} evaluations without an end"))
                return True
            if n > 10 * nblocks:
                viol.append(('too-much-work', f"{label} {vec}: {n} evaluations for {nblocks} blocks"))
            if dead:
                exc = task.exception() if not task.cancelled() else None
                unstable = isinstance(exc, edzed.EdzedCircuitError) and 'instability' in str(exc)
                if not unstable:
                    viol.append(('wrong-error', f"{label} {vec}: simulation ended with {exc!r}"))
                elif acyclic:
                    viol.append(('stable-network-aborted',
                                 f"{label} {vec}: acyclic network reported unstable "
                                 f"({n} evaluations, {nblocks} blocks)"))
                elif sols:
                    acc.count('cyclic_consistent_reported')
                else:
                    acc.count('unstable_reported')
                return True
            if not sols:
                viol.append(('instability-not-detected',
                             f"{label} {vec}: no consistent state exists but the simulator went idle "
                             f"with outputs {[g.output for g in gates]}"))
                return False
            outs = tuple(g.output for g in gates)
            if outs not in sols or (evin is not None and evin.output != outs[cfg['ev']]):
                viol.append(('idle-but-inconsistent',
                             f"{label} {vec}: idle with gate outputs {outs}"
                             f"{'' if evin is None else f' (event input {evin.output})'}, consistent "
                             f"states are {sols}"))
            else:
                acc.count('settled')
            return False

        async def driver():
            nonlocal died_at
            task = asyncio.create_task(sim.circuit.run_forever())
            try:
                await sim.circuit.wait_init()
            except edzed.EdzedInvalidState:
                pass
            await sim.loop.idle()
            if judge(start, task, 'start at'):
                died_at = -1
            else:
                for ti, tgt in enumerate(targets):
                    for goal in (tgt, start):
                        for i in range(k):
                            if srcs[i].output != goal[i]:
                                try:
                                    edzed.ExtEvent(srcs[i]).send(goal[i])
                                except edzed.EdzedUnknownEvent:
                                    if not cfg.get('badev'):
                                        raise
                        await sim.loop.idle()
                        if judge(goal, task, f"change {start}->{tgt}->{start}, now at"):
                            died_at = ti
                            break
                    if died_at is not None:
                        break
            await stop(sim.circuit)
            if not task.done():
                viol.append(('task-not-finished', 'simulation task still pending after shutdown'))
            task.exception() if task.done() and not task.cancelled() else None
        try:
            sim.run(driver())
        except Exception as err:    # pylint: disable=broad-except
            viol.append(('driver-died', repr(err)))
    acc.execs += 1
    return viol, died_at


def cfg_key(cfg):
    return (cfg['k'], cfg['gates'], cfg['ev'], cfg.get('badev', False))


def run_cascade(cfg, acc):
    k, m, extra = cfg['cascade']
    nblocks = 2 * k + 1 + m + extra
    paths = k + m * (k + 1)
    for order in ('xors-first', 'chain-first', 'mixed'):
        viol = []
        with Sim() as sim:
            nets.install_rank_hash()
            ss = [edzed.Input(f's{i}', initdef=False) for i in range(k + 1)]
            for i in range(extra):
                edzed.Input(f'u{i}', initdef=0)
            chain = [edzed.FuncBlock(f'c{i}', func=lambda x: bool(x), on_output=edzed.Event(ss[i], 'put')
                                     ).connect(ss[i - 1]) for i in range(1, k + 1)]
            xors = [edzed.Xor(f'x{j}').connect(*ss) for j in range(m)]
            if order == 'xors-first':
                nets.set_ranks(xors + chain, range(m + k))
            elif order == 'chain-first':
                nets.set_ranks(chain + xors, range(m + k))
            else:
                mixed = [b for pair in itertools.zip_longest(xors, chain) for b in pair if b]
                nets.set_ranks(mixed, range(m + k))

            async def driver():
                task = asyncio.create_task(sim.circuit.run_forever())
                try:
                    await sim.circuit.wait_init()
                except edzed.EdzedInvalidState:
                    pass
                for val in (False, True, False, True):
                    if ss[0].output != val:
                        edzed.ExtEvent(ss[0]).send(val)
                    await sim.loop.idle()
                    if task.done():
                        viol.append(('stable-network-aborted',
                                     f"event cascade k={k}, {m} xor observers, {extra} idle inputs "
                                     f"({nblocks} blocks, {paths} paths <= 3 x blocks), order {order}: "
                                     f"ended with {sim.circuit.error!r}"))
                        break
                    exp_x = bool((k + 1) % 2) and val
                    if any(s.output != val for s in ss) or any(x.output != exp_x for x in xors):
                        viol.append(('idle-but-inconsistent',
                                     f"event cascade k={k} m={m}: inputs {[s.output for s in ss]}, "
                                     f"xors {[x.output for x in xors]} after S0={val}"))
                        break
                await stop(sim.circuit)
                task.exception() if task.done() and not task.cancelled() else None
            sim.run(driver())
        acc.execs += 1
        acc.outcome(('cascade', k, m, extra, order, bool(viol)))
        acc.state(('cascade', k, m, extra))
        for sig, msg in viol:
            acc.violation(f"C10:{sig}", msg, cfg=cfg)
    acc.sample({'cascade': cfg['cascade'], 'blocks': nblocks, 'paths': paths}, limit=1)
    return acc


def run_notchain(cfg, acc):
    n, taps = cfg['notchain']
    for order, first in itertools.product(('forward', 'reverse', 'odd-even', 'inverter-first'),
                                          (False, True)):
        viol = []
        with Sim() as sim:
            # 'inverter-first': the automatically created inverter gets the lowest rank, the chain
            # follows from its far end, 'x' comes last
            nets.install_rank_hash(auto_base=0 if order == 'inverter-first' else 64)
            src = edzed.Input('src', initdef=first)
            x = edzed.FuncBlock('x', func=lambda a: bool(a)).connect(src)
            us = []
            # arithmetic functions: every re-evaluation with a changed input changes the output,
            # so the number of evaluations can really reach the number of paths
            for i in range(1, n + 1):
                if i == 1:
                    us.append(edzed.FuncBlock('u1', func=lambda tap: int(bool(tap))).connect(tap='_not_x'))
                elif i in taps:
                    us.append(edzed.FuncBlock(f'u{i}', func=lambda prev, tap: 2 * prev + int(bool(tap))
                                              ).connect(prev=f'u{i - 1}', tap='_not_x'))
                else:
                    us.append(edzed.FuncBlock(f'u{i}', func=lambda prev: 2 * prev).connect(prev=f'u{i - 1}'))
            blocks = [x] + us
            ranks = list(range(len(blocks)))
            if order == 'reverse':
                ranks.reverse()
            elif order == 'odd-even':
                ranks = ranks[1::2] + ranks[0::2]
            elif order == 'inverter-first':
                ranks = [len(blocks) + 2] + [len(blocks) + 1 - i for i in range(1, len(blocks))]
            nets.set_ranks(blocks, ranks)

            async def driver():
                task = asyncio.create_task(sim.circuit.run_forever())
                try:
                    await sim.circuit.wait_init()
                except edzed.EdzedInvalidState:
                    pass
                for step, val in enumerate((first, first, not first, first)):
                    if not task.done() and src.output != val:
                        edzed.ExtEvent(src).send(val)
                    if step:
                        # (step 0: the moment wait_init() returned - the first evaluation is complete)
                        await sim.loop.idle()
                    if task.done():
                        viol.append(('stable-network-aborted',
                                     f"chain of {n} blocks behind '_not_x' (taps {taps}), order {order}, "
                                     f"src={val}: ended with {sim.circuit.error!r}"))
                        break
                    # reference: u_i = not x, xor-ed with (not x) at every tap
                    t = int(not val)
                    cur = 0
                    exp = []
                    for i in range(1, n + 1):
                        cur = t if i == 1 else 2 * cur + (t if i in taps else 0)
                        exp.append(cur)
                    got = [u.output for u in us]
                    if got != exp:
                        bad = next(i for i in range(n) if got[i] != exp[i])
                        viol.append(('idle-but-inconsistent',
                                     f"chain behind '_not_x' (n={n}, taps {taps}), order {order}, src={val}, "
                                     f"{'at the moment wait_init() returned' if not step else 'idle'}: "
                                     f"u{bad + 1} outputs {got[bad]!r}, expected {exp[bad]!r} "
                                     f"({sum(1 for g, e in zip(got, exp) if g != e)} of {n} blocks differ)"))
                        break
                await stop(sim.circuit)
                task.exception() if task.done() and not task.cancelled() else None
            sim.run(driver())
        acc.execs += 1
        acc.outcome(('notchain', n, taps, order, first, bool(viol)))
        acc.state(('notchain', n, taps))
        for sig, msg in viol:
            acc.violation(f"C10:{sig}", msg, cfg=cfg)
    return acc


def run_typed(cfg, acc):
    table, depth = cfg['typed']
    n = len(table)

    def show(v):
        return f"{type(v).__name__}:{v!r}"
    for perm in itertools.permutations(range(depth + 2)):
        for start in range(n):
            viol = []
            with Sim() as sim:
                nets.install_rank_hash()
                src = edzed.Input('src', initdef=start)
                p = edzed.FuncBlock('p', func=lambda a: table[a]).connect(src)
                chain = [p]
                for j in range(depth):
                    chain.append(edzed.FuncBlock(f'q{j}', func=lambda a: a).connect(chain[-1]))
                chain.append(edzed.FuncBlock('shown', func=show).connect(chain[-1]))
                nets.set_ranks(chain, perm)

                async def driver():
                    task = asyncio.create_task(sim.circuit.run_forever())
                    await sim.circuit.wait_init()
                    # a walk through all ordered pairs of table rows, beginning at `start`
                    walk = [b for a in range(n) for b in (a, (a + 1 + start) % n)] + list(range(n)) + list(range(n - 1, -1, -1))
                    for idx in walk:
                        edzed.ExtEvent(src).send(idx)
                        await sim.loop.idle()
                        if task.done():
                            viol.append(('stable-network-aborted', f"typed chain {table}: {sim.circuit.error!r}"))
                            break
                        outs = [b.output for b in chain]
                        bad = [j for j in range(1, depth + 1) if show(outs[j]) != show(outs[j - 1])]
                        if outs[0] != table[idx] or bad or outs[-1] != show(outs[-2]):
                            viol.append(('idle-but-inconsistent',
                                         f"chain src -> p=table[src] -> {depth} x identity -> shown=type:repr, "
                                         f"table {table}, rank order {perm}: idle after src={idx} with outputs "
                                         f"{[show(o) for o in outs[:-1]]}, shown={outs[-1]!r}"))
                            break
                    await stop(sim.circuit)
                    task.exception() if task.done() and not task.cancelled() else None
                sim.run(driver())
            acc.execs += 1
            acc.outcome(('typed', repr(table), depth, perm, start, bool(viol)))
            acc.state(('typed', repr(table), depth))
            for sig, msg in viol:
                acc.violation(f"C10:{sig}", msg, cfg=cfg)
    return acc


def run_config(cfg):
    acc = Acc()
    if 'typed' in cfg:
        return run_typed(cfg, acc)
    if 'cascade' in cfg:
        return run_cascade(cfg, acc)
    if 'notchain' in cfg:
        return run_notchain(cfg, acc)
    k, m = cfg['k'], len(cfg['gates'])
    vectors = list(itertools.product((False, True), repeat=k))
    perms = list(itertools.permutations(range(m)))
    if m > 4:
        perms = [tuple(range(m)), tuple(reversed(range(m))),
                 tuple(list(range(1, m, 2)) + list(range(0, m, 2)))]
    elif m == 4:
        perms = perms[::5] + [perms[-1]]      # 6 of the 24 orders (first, last and four between)
    for perm in perms:
        for start in vectors:
            targets = [v for v in vectors if v != start]
            while True:
                viol, died_at = run_case(cfg, perm, start, targets, acc)
                for sig, msg in viol[:2]:
                    acc.violation(f"C10:{sig}", f"rank order {perm}: {msg}", cfg=cfg,
                                  detail={'perm': perm, 'start': start})
                if died_at is None or died_at < 0 or died_at + 1 >= len(targets):
                    break
                targets = targets[died_at + 1:]     # restart and try the remaining targets
        st = acc.state((cfg_key(cfg), perm))
        acc.transition(st, 'walk', st)
    acc.sample({'network': cfg, 'acyclic': is_acyclic(cfg),
                'consistent_states': {str(v): len(consistent_assignments(cfg, v)) for v in vectors}},
               limit=3)
    return acc

"""
C17 - an Input never outputs a value that its validators reject.

Explicit-state BFS on the real Input / InputExp: canonical state = simple instance
attributes (incl. the output) - every value of the domain is put in every reachable
state, so the result covers put sequences of any length over the domain.
Oracle: accept(v) = in allowed and check(v) and schema(v) does not raise.
"""
from __future__ import annotations

import asyncio
import copy

import edzed

from ..explore import Acc
from ..harness import Sim, stop
from ..stategraph import bfs, fingerprint

PROPERTY = 'C17'
LEVEL = 'model_checking'
LEVEL_TEXT = ("Explicit-state search over the real Input and InputExp blocks for every combination "
              "of allowed/check/schema from a catalogue: every value of a 17-element domain put in "
              "every reachable canonical state; the graph closes, so the result holds for put "
              "sequences of any length over the domain; plus every initdef/expired/persistent value.")
LEVEL_NOTE = ("Validator catalogue 4x4x4 (thorough 8x7x8), 17-value domain incl. equal-but-different "
              "values, None, '', an unhashable list; canonical state = simple instance attributes + FSM state.")
TECHNIQUE = "explicit-state model checking of the implementation (closed state graph) vs. accept() predicate"
RULE = ("config = (block kind, allowed, check, schema); BFS over put sequences with canonical state "
        "dedup; outcome = (config, state, value, result, new output); distinct = distinct tuples")
ASSUMPTIONS = ["validator functions are pure", "membership in 'allowed' means equality with a member"]

ALLOWED = {'none': None, 's12': {1, 2}, 'empty': set(), 'l1a': [1, 'a'],
           # thorough only:
           't1232': (1, 2, 3, 2), 'str': 'abc', 'fs': frozenset({None, 0}), 'd': {'x': 1, 2: 2}}
CHECK = {'none': None, 'isint': lambda v: isinstance(v, int),
         # "returns a true value": the results need not be bools
         'truthy': lambda v: v,                                 # the value itself (0, '', None, () ... reject)
         'never': lambda v: 0 if isinstance(v, str) else None,  # falsy, but never the False singleton
         # thorough only:
         'false': lambda v: False, 'bool': bool,
         'notnone': lambda v: v is not None, 'hashable': lambda v: not isinstance(v, list),
         'returns0': lambda v: 0 if v == 2 else 'yes'}


def _raises(v):
    raise RuntimeError("schema always raises")


SCHEMA = {'none': None, 'int': int, 'dbl': lambda v: v * 2, 'raises': _raises,
          # rejects with KeyError (or TypeError for an unhashable value), not ValueError
          # (... and maps one accepted value to None, a legitimate result)
          'lookup': {1: 'one', 2: None, 'x': 'ex'}.__getitem__,
          # thorough only:
          'inv': lambda v: 12 / v,      # ZeroDivisionError / TypeError
          'str': str, 'tonone': lambda v: None, 'neg': lambda v: -v, 'len': len,
          'attr': lambda v: v.real}     # AttributeError
D = [0, 1, 2, '1', 'x', None, 1.0, True, (1,), [1], -1, 'a', '', 3, 2.5, frozenset(),
     (1, [2])]      # looks hashable (a tuple) but is not
QUICK_KEYS = 4       # the first four entries of each catalogue form the quick tier


def accept(a, c, s, v):
    """-> (accepted, output)"""
    allowed, check, schema = ALLOWED[a], CHECK[c], SCHEMA[s]
    if allowed is not None and not any(v == m for m in allowed):
        return False, None
    if check is not None and not check(v):
        return False, None
    if schema is not None:
        try:
            return True, schema(copy.copy(v))
        except Exception:   # pylint: disable=broad-except
            return False, None
    return True, v


def configs(tier):
    out = []
    nk = QUICK_KEYS if tier == 'quick' else None
    for kind in ('Input', 'InputExp'):
        for a in list(ALLOWED)[:nk]:
            for c in list(CHECK)[:nk]:
                for s in list(SCHEMA)[:(nk + 1 if nk else None)]:
                    out.append(dict(kind=kind, mode='graph', a=a, c=c, s=s))
                    out.append(dict(kind=kind, mode='ctor', a=a, c=c, s=s))
                    if kind == 'Input':
                        out.append(dict(kind=kind, mode='restore', a=a, c=c, s=s))
                    out.append(dict(kind=kind, mode='outerr', a=a, c=c, s=s))
    return out


def vkw(cfg):
    kw = {}
    if ALLOWED[cfg['a']] is not None:
        # the caller's own container: a private copy, modified after the block was created
        # (see spoil(); the block's 'allowed' values are those given at construction)
        kw['allowed'] = copy.copy(ALLOWED[cfg['a']])
    if CHECK[cfg['c']] is not None:
        kw['check'] = CHECK[cfg['c']]
    if SCHEMA[cfg['s']] is not None:
        kw['schema'] = SCHEMA[cfg['s']]
    return kw


def spoil(kw):
    """The application goes on using (clearing, refilling) the container it passed as 'allowed'."""
    cont = kw.get('allowed')
    if isinstance(cont, set):
        cont.clear()
        cont.update(('x', 3, None))
    elif isinstance(cont, list):
        cont.clear()
        cont.extend(('x', 3, None))
    elif isinstance(cont, dict):
        cont.clear()
        cont.update({'x': 0, 3: 0, None: 0})


def first_accepted(cfg):
    for v in D:
        ok, out = accept(cfg['a'], cfg['c'], cfg['s'], v)
        if ok:
            return v, out
    return None


def expired_value(cfg):
    """(value, its validated form) used as InputExp's 'expired': the LAST acceptable value of D."""
    for v in reversed(D):
        try:
            ok, out = accept(cfg['a'], cfg['c'], cfg['s'], v)
        except Exception:   # pylint: disable=broad-except
            continue
        if ok:
            return v, out
    return None


EXPIRE = 'expire'       # extra symbol of the InputExp alphabet: let the value expire


def same(x, y):
    return x == y


def run_history(cfg, hist, init):
    """hist: tuple of indexes into D. init = (initdef value, its output) accepted by cfg."""
    info = {'steps': [], 'viol': []}
    a, c, s = cfg['a'], cfg['c'], cfg['s']
    with Sim() as sim:
        try:
            kw = vkw(cfg)
            if cfg['kind'] == 'Input':
                blk = edzed.Input('inp', initdef=init[0], **kw)
            else:
                blk = edzed.InputExp('inp', duration=10, expired=copy.copy(expired_value(cfg)[0]),
                                     initdef=init[0], **kw)
            spoil(kw)
        except Exception as err:    # pylint: disable=broad-except
            info['viol'].append(('ctor-refused-valid-initdef',
                                 f"initdef {init[0]!r} is acceptable for [{a},{c},{s}] but the "
                                 f"constructor raised {err!r}"))
            return None, info

        async def driver():
            task = asyncio.create_task(sim.circuit.run_forever())
            try:
                await sim.circuit.wait_init()
            except edzed.EdzedInvalidState as err:
                info['viol'].append(('start-refused-valid-initdef',
                                     f"initdef {init[0]!r} is acceptable for [{a},{c},{s}] but the "
                                     f"start failed: {err}"))
                info['dead'] = True
                info['steps'].append(('start', repr(err), None))
                del task
                return
            cur = init[1]
            if not same(blk.output, cur):
                info['viol'].append(('initial-output', f"{blk.output!r} != schema(initdef) {cur!r}"))
            for vi in hist:
                if vi == EXPIRE:
                    await sim.loop.sleep_until_us(sim.loop.now_us + 11_000_000)
                    cur = expired_value(cfg)[1]
                    info['steps'].append((EXPIRE, None, repr(blk.output)))
                    if not same(blk.output, cur):       # (an equal value is "no change" for set_output)
                        info['viol'].append(('wrong-output',
                                             f"after the expiration [{a},{c},{s}]: output {blk.output!r}, "
                                             f"expected the validated 'expired' value {cur!r}"))
                    continue
                v = copy.copy(D[vi])
                ok, out = accept(a, c, s, v)
                before = copy.deepcopy(blk.get_state())
                try:
                    ret = edzed.ExtEvent(blk, 'put').send(v)
                except Exception as err:    # pylint: disable=broad-except
                    ret = err
                info['steps'].append((repr(D[vi]), repr(ret), repr(blk.output)))
                await asyncio.sleep(0)
                dead = not sim.circuit.is_ready()
                if isinstance(ret, Exception) or dead:
                    what = 'unhashable' if isinstance(D[vi], list) and ALLOWED[a] is not None else 'other'
                    info['viol'].append((f"put-raised-or-stopped-simulation:{what}",
                                         f"put({D[vi]!r}) [{a},{c},{s}] -> {ret!r}; error={sim.circuit.error!r}"))
                    info['dead'] = True
                    break
                if ok:
                    if ret is not True:
                        info['viol'].append(('accepted-but-not-true',
                                             f"put({D[vi]!r}) [{a},{c},{s}] returned {ret!r}"))
                    if not same(blk.output, out):
                        info['viol'].append(('wrong-output',
                                             f"put({D[vi]!r}) [{a},{c},{s}]: output {blk.output!r}, expected {out!r}"))
                    cur = out
                else:
                    if ret is not False:
                        info['viol'].append(('rejected-but-not-false',
                                             f"put({D[vi]!r}) [{a},{c},{s}] returned {ret!r}"))
                    if not same(blk.output, cur):
                        info['viol'].append(('rejected-value-on-output',
                                             f"put({D[vi]!r}) [{a},{c},{s}] rejected, output {blk.output!r} was {cur!r}"))
                    if blk.get_state() != before:
                        info['viol'].append(('rejected-put-changed-state',
                                             f"put({D[vi]!r}) [{a},{c},{s}]: state {before!r} -> {blk.get_state()!r}"))
            st = getattr(blk, 'state', None)
            info['canon'] = (cfg['kind'], a, c, s, repr(blk.output), type(blk.output).__name__,
                             st, fingerprint(blk, skip=('comment', 'name', 'key', 'debug')),
                             repr(getattr(blk, 'sdata', None)))
            await stop(sim.circuit)
            del task
        sim.run(driver())
    return (None if info.get('dead') else info['canon']), info


def run_outerr(cfg, acc):
    """
    The delivery of the output event of an accepted put fails (a filter raises). Whatever becomes
    of that error (C09: it stops the simulation), a put that *returns False* must have left
    output and state unchanged, and a value that fails validation is still simply refused.
    """
    a, c, s = cfg['a'], cfg['c'], cfg['s']
    init = first_accepted(cfg)
    if init is None:
        return
    for exc in (ValueError, TypeError, KeyError):
        for v0 in D:
            ok, out = accept(a, c, s, v0)
            if ok and same(out, init[1]):
                continue        # no output change, no output event
            acc.execs += 1
            armed = []
            res = {}

            def boom(data, _exc=exc, _armed=armed):
                if _armed:
                    raise _exc('event filter failed')
                return True
            with Sim() as sim:
                kw = vkw(cfg)
                sink = edzed.Input('sink', initdef=None)
                ev = edzed.Event(sink, 'put', efilter=boom)
                try:
                    if cfg['kind'] == 'Input':
                        blk = edzed.Input('inp', initdef=init[0], on_output=ev, **kw)
                    else:
                        blk = edzed.InputExp('inp', duration=10, expired=copy.copy(expired_value(cfg)[0]),
                                             initdef=init[0], on_output=ev, **kw)
                except Exception as err:    # pylint: disable=broad-except
                    acc.violation(f"C17:ctor-refused-valid-initdef:{cfg['kind']}",
                                  f"initdef {init[0]!r} is acceptable for [{a},{c},{s}] but the "
                                  f"constructor raised {err!r}", cfg=cfg)
                    return

                async def driver():
                    task = asyncio.create_task(sim.circuit.run_forever())
                    try:
                        await sim.circuit.wait_init()
                    except edzed.EdzedInvalidState as err:
                        res['start_err'] = repr(err)
                        del task
                        return
                    armed.append(1)
                    res['before'] = (blk.output, copy.deepcopy(blk.get_state()))
                    try:
                        res['ret'] = edzed.ExtEvent(blk, 'put').send(copy.copy(v0))
                    except Exception as err:    # pylint: disable=broad-except
                        res['ret'] = err
                    res['after'] = (blk.output, copy.deepcopy(blk.get_state()))
                    await asyncio.sleep(0)
                    res['dead'] = not sim.circuit.is_ready()
                    await stop(sim.circuit)
                    del task
                sim.run(driver())
            if 'start_err' in res:
                acc.violation(f"C17:start-refused-valid-initdef:{cfg['kind']}",
                              f"initdef {init[0]!r} is acceptable for [{a},{c},{s}] but the start failed: "
                              f"{res['start_err']}", cfg=cfg)
                return
            acc.outcome(('outerr', cfg['kind'], a, c, s, exc.__name__, repr(v0), repr(res.get('ret')), res.get('dead')))
            acc.state(('outerr', cfg['kind'], ok, type(res.get('ret')).__name__, res.get('dead')))
            tag = f"{cfg['kind']} [{a},{c},{s}] whose output event fails with {exc.__name__}: put({v0!r})"
            if res['ret'] is False and (not same(res['after'][0], res['before'][0])
                                        or res['after'][1] != res['before'][1]):
                acc.violation(f"C17:false-but-changed:{cfg['kind']}",
                              f"{tag} returned False, but output/state went from {res['before']!r} "
                              f"to {res['after']!r}", cfg=cfg)
            if not ok:
                if res['ret'] is not False or res['dead']:
                    acc.violation(f"C17:rejected-but-not-false:{cfg['kind']}",
                                  f"{tag} (not acceptable) -> {res['ret']!r}, simulation stopped: {res['dead']}",
                                  cfg=cfg)


def run_config(cfg):
    acc = Acc()
    a, c, s = cfg['a'], cfg['c'], cfg['s']
    if cfg['mode'] == 'graph':
        init = first_accepted(cfg)
        if init is None:
            # nothing is acceptable: the block cannot have an initdef; use event-only init
            acc.count('configs_accepting_nothing')
            acc.state(('nothing-acceptable', cfg['kind'], a, c, s))
            return acc

        def on_step(hist, hc, sym, canon, info):
            for sig, msg in info['viol']:
                acc.violation(f"C17:{sig}:{cfg['kind']}", msg, cfg=cfg,
                              detail={'history': [repr(D[i]) if i != EXPIRE else i for i in hist],
                                      'steps': info['steps']})
            acc.outcome((cfg['kind'], a, c, s, hc, sym, info['steps'][-1:]))
        alpha = list(range(len(D))) + ([EXPIRE] if cfg['kind'] == 'InputExp' else [])
        res = bfs(lambda h: run_history(cfg, h, init), alpha, acc, max_depth=6,
                  on_step=on_step)
        acc.count('graphs_closed' if res['closed'] else 'graphs_open')
        if not res['closed'] and not acc.violations:
            acc.violation(f"C17:graph-did-not-close:{cfg['kind']}", str(res), cfg=cfg)
        acc.sample({'cfg': cfg, 'result': res, 'initdef': repr(init[0])}, limit=3)
    elif cfg['mode'] == 'ctor':
        # every initdef (Input) / expired + initdef (InputExp) in D: refused iff rejected
        good = first_accepted(cfg)
        for v in D:
            ok, out = accept(a, c, s, v)
            for role in (('initdef',) if cfg['kind'] == 'Input' else ('initdef', 'expired')):
                acc.execs += 1
                with Sim():
                    try:
                        if cfg['kind'] == 'Input':
                            blk = edzed.Input('inp', initdef=copy.copy(v), **vkw(cfg))
                        elif role == 'initdef':
                            if good is None:
                                continue
                            blk = edzed.InputExp('inp', duration=10, expired=good[0],
                                                 initdef=copy.copy(v), **vkw(cfg))
                        else:
                            blk = edzed.InputExp('inp', duration=10, expired=copy.copy(v),
                                                 **vkw(cfg))
                        refused = False
                    except Exception as err:    # pylint: disable=broad-except
                        refused = True
                        del err
                acc.outcome((cfg['kind'], a, c, s, repr(v), role, refused))
                acc.state(('ctor', cfg['kind'], a, c, s, role, refused))
                if refused == ok:
                    acc.violation(
                        f"C17:ctor-{'refused-valid' if refused else 'accepted-invalid'}-{role}:{cfg['kind']}",
                        f"{cfg['kind']}({role}={v!r}) [{a},{c},{s}]: refused={refused}, accept={ok}",
                        cfg=cfg)
    elif cfg['mode'] == 'outerr':
        run_outerr(cfg, acc)
    else:
        # restored persistent value passes through the same validation
        good = first_accepted(cfg)
        for v in D:
            ok, out = accept(a, c, s, v)
            if good is None and not ok:
                continue    # would (legitimately) fail to start
            acc.execs += 1
            with Sim() as sim:
                kw = vkw(cfg)
                if good is not None:
                    kw['initdef'] = good[0]
                try:
                    blk = edzed.Input('inp', persistent=True, **kw)
                    spoil(kw)
                except Exception as err:    # pylint: disable=broad-except
                    acc.violation('C17:ctor-refused-valid-initdef:Input',
                                  f"initdef {kw.get('initdef')!r} is acceptable for [{a},{c},{s}] but "
                                  f"the constructor raised {err!r}", cfg=cfg)
                    break
                sim.circuit.set_persistent_data({blk.key: copy.copy(v), 'edzed-stop-time': 0.0})
                res = {}

                async def driver():
                    task = asyncio.create_task(sim.circuit.run_forever())
                    try:
                        await sim.circuit.wait_init()
                        res['out'] = blk.output
                        await stop(sim.circuit)
                    except Exception as err:    # pylint: disable=broad-except
                        res['err'] = err
                    del task
                sim.run(driver())
            exp = out if ok else good[1]
            acc.outcome(('restore', a, c, s, repr(v), repr(res)))
            acc.state(('restore', a, c, s, ok))
            if 'err' in res:
                acc.violation('C17:restore-failed-start', f"stored {v!r} [{a},{c},{s}]: {res['err']!r}",
                              cfg=cfg)
            elif not same(res['out'], exp):
                acc.violation('C17:restore-bypassed-validation',
                              f"stored {v!r} [{a},{c},{s}]: output {res['out']!r}, expected {exp!r}",
                              cfg=cfg)
    return acc

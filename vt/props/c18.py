"""
C18 - Repeat re-sends the latest event at the configured pace and count.

Exhaustive over arrival patterns on a virtual time grid around the repetition instants
(incl. the same instant, both tie orders), count in {None,0,1,3}, matching / non-matching
event types, explicit Repeat, implicit Repeat (Event(..., repeat=)), chain Repeat->Repeat,
stop at chosen instants.  Oracle: invariants from the statement on the destination's
time-stamped log.
"""
from __future__ import annotations

import asyncio
import itertools

import edzed

from ..explore import Acc, explore
from ..harness import Sim, TICK
from ..probes import Probe

PROPERTY = 'C18'
LEVEL = 'model_checking'
RULE = ("every arrival pattern (<=3 quick / <=4 thorough events, gaps on a grid around the "
        "repetition instants incl. the same instant) x count x event types x variant "
        "(explicit, implicit, chain) x stop instant x every order of same-deadline timers; "
        "an outcome is the destination's complete time-stamped log; distinct = distinct logs")
ASSUMPTIONS = [
    "virtual event loop: stock CPython 3.12 BaseEventLoop._run_once with harness-owned time; "
    "zero timer latency; durations are whole virtual seconds",
    "ties = timers with exactly equal deadlines; both orders explored",
    "when an arrival or the stop shares an instant with a repetition, the repetition of the "
    "older event may precede it or be omitted (the statement does not order them)",
]
LEVEL_TEXT = ("Bounded exhaustive model checking of the real Repeat block on a virtual event loop: "
              "every arrival pattern on the grid, every order of same-instant timers, every "
              "listed configuration; each execution is an implementation run judged against "
              "invariants taken from the statement.")
LEVEL_NOTE = ("Trusted: CPython 3.12 asyncio scheduling semantics (stock _run_once re-used), the "
              "harness' virtual clock; bounds: <=3/4 arrivals, interval 4 (chain: 2..4), "
              "zero timer latency.")
TECHNIQUE = "stateless model checking of the implementation (virtual-time schedule enumeration)"
INTERVAL = 4


def fresh(name):
    """An event type equal to `name`, but a new str object (as read from a configuration file)."""
    out = ''.join(list(name))
    assert out == name and (len(name) < 2 or out is not name)
    return out


def configs(tier):
    out = []
    # the destination's handler holds the CPU for longer than the interval during one delivery:
    # the pace afterwards is still one re-send per interval (no burst catching up)
    for count in (None, 6):
        for at in (0, 1, 2):
            for hold in (0.5, 1, 2.5, 3):
                out.append(dict(kind='stall', count=count, at=at, hold=hold))
    # an event reaches the Repeat block during the clean-up, after the block itself was stopped
    # (another block says its last word in stop() / at the end of a slow stop_async()):
    # it is still forwarded at once with repeat=0, and nothing is re-sent afterwards
    for count in (None, 0, 2):
        for prior in (None, 1, 5, 9):
            for how in ('stop', 'stop_async'):
                for variant in ('explicit', 'implicit'):
                    out.append(dict(kind='late', count=count, prior=prior, how=how, variant=variant))
    counts = [None, 0, 1, 3]
    gaps = [0, 1, 3, 4, 5, 7, 8, 9]
    maxn = 3 if tier == 'quick' else 4
    for count in counts:
        for n in range(1, maxn + 1):
            gap_sets = itertools.product(gaps, repeat=n - 1)
            for gs in gap_sets:
                times = [1]
                for g in gs:
                    times.append(times[-1] + g)
                type_sets = itertools.product((1, 0), repeat=n)
                for ts in type_sets:
                    if n == maxn and n >= 3 and sum(ts) < n - 1:
                        continue    # at most one non-matching event in the longest patterns
                    arr = [[t, m] for t, m in zip(times, ts)]
                    last = times[-1]
                    stops = [None, last, last + 3, last + 4, last + 5, last + 8]
                    if tier == 'quick' and n == 3:
                        stops = [None, last + 4, last + 8]
                    for stop in stops:
                        for yb in ((0, 1) if 0 in gs else (0,)):
                            out.append(dict(v='explicit', count=count, arr=arr, stop=stop, yb=yb))
    # implicit Repeat created by Event(..., repeat=, count=)
    for count in counts:
        for n in (1, 2, 3):
            for gs in itertools.product(gaps, repeat=n - 1):
                times = [1]
                for g in gs:
                    times.append(times[-1] + g)
                arr = [[t, 1] for t in times]
                for stop in (None, times[-1] + 4):
                    out.append(dict(v='implicit', count=count, arr=arr, stop=stop, yb=0))
    # chain Repeat -> Repeat -> probe; level-1 stream is kept unambiguous (no level-1 ties)
    for c1 in (None, 1, 2):
        for c2 in (None, 0, 1, 3):
            for i2 in (2, 3, 4):
                for n in (1, 2):
                    for gs in itertools.product((1, 2, 3, 5, 6, 7), repeat=n - 1):
                        times = [1]
                        for g in gs:
                            times.append(times[-1] + g)
                        arr = [[t, 1] for t in times]
                        for stop in (None, times[-1] + 6):
                            out.append(dict(v='chain', count=c2, c1=c1, i2=i2, arr=arr,
                                            stop=stop, yb=0))
    return out


# ------------------------------------------------------------------ reference

def gen_stream(arrivals, interval, count, end):
    """
    Deterministic reference stream of a Repeat fed with `arrivals` [(t, tag)] (all matching,
    no arrival in the same instant as a repetition): [(t, tag, repeat)] with t < end.
    """
    out = []
    for i, (t, tag) in enumerate(arrivals):
        nxt = arrivals[i + 1][0] if i + 1 < len(arrivals) else None
        if t >= end:
            break
        out.append((t, tag, 0))
        k = 1
        while count is None or k <= count:
            tk = t + k * interval
            if tk >= end or (nxt is not None and tk >= nxt):
                assert nxt is None or tk != nxt, "level-1 tie in a chain config"
                break
            out.append((tk, tag, k))
            k += 1
    return out


def check_stream(arrivals, log, interval, count, stop, horizon):
    """
    arrivals: [(t, tag)] matching arrivals in send order.  log: [(t, tag, repeat)] seen by the
    destination.  stop: stop instant or None.  Returns list of (sig, msg).
    """
    errs = []
    end = horizon if stop is None else stop
    # 1. repeat=0 entries are exactly the arrivals, in order, in the arrival instant
    zeros = [(t, tag) for (t, tag, r) in log if r == 0]
    exp0 = [(t, tag) for (t, tag) in arrivals if stop is None or t <= stop]
    if zeros != exp0:
        # an arrival in the stop instant may or may not get in; handled by the driver
        errs.append(('forward-immediately', f"repeat=0 deliveries {zeros} != arrivals {exp0}"))
        return errs
    # 2. every re-send repeats the most recent event, numbered 1.., one interval apart
    cur = None      # index of the most recent arrival delivered
    sent = {}       # arrival index -> last repeat number seen
    ai = -1
    for (t, tag, r) in log:
        if r == 0:
            ai += 1
            cur = ai
            sent[cur] = 0
            continue
        if cur is None:
            errs.append(('resend-without-event', f"re-send {(t, tag, r)} before any event"))
            continue
        t0, tag0 = arrivals[cur]
        if tag != tag0:
            errs.append(('stale-resend-after-newer-event',
                         f"re-send {(t, tag, r)} after newer event {tag0!r} arrived at {t0}"))
            continue
        if r != sent[cur] + 1:
            errs.append(('numbering', f"re-send {(t, tag, r)}: expected repeat={sent[cur] + 1}"))
        if t != t0 + r * interval:
            errs.append(('pace', f"re-send {(t, tag, r)}: expected at {t0 + r * interval}"))
        if count is not None and r > count:
            errs.append(('count-exceeded', f"re-send {(t, tag, r)} beyond count={count}"))
        sent[cur] = r
        if stop is not None and t > stop:
            errs.append(('resend-after-stop', f"re-send {(t, tag, r)} after stop at {stop}"))
    # 3. completeness: repetitions strictly before the next arrival / stop / horizon must exist
    got = {(tag, t, r) for (t, tag, r) in log if r > 0}
    for i, (t0, tag0) in enumerate(arrivals):
        if stop is not None and t0 > stop:
            continue
        nxt = arrivals[i + 1][0] if i + 1 < len(arrivals) else None
        k = 1
        while count is None or k <= count:
            tk = t0 + k * interval
            if tk >= end or (nxt is not None and tk >= nxt):
                break
            if (tag0, tk, k) not in got:
                errs.append(('missing-resend', f"missing re-send #{k} of {tag0!r} at {tk}"))
            k += 1
    return errs


# ------------------------------------------------------------------ one execution

def one_exec(cfg, chooser):
    v = cfg['v']
    arr = cfg['arr']
    stop = cfg['stop']
    count = cfg['count']
    horizon = arr[-1][0] + 14
    log = []
    obs = {'errors': [], 'sync': [], 'out_at_recv': []}
    with Sim(chooser) as sim:
        loop = sim.loop
        rpt_holder = {}

        def extra():
            r = rpt_holder.get('r')
            return None if r is None else r.output
        probe = Probe('probe', log=log, extra=extra)
        if v == 'explicit':
            rpt = edzed.Repeat('rpt', dest=probe, etype=fresh('ev'), interval=INTERVAL, count=count)
            rpt_holder['r'] = rpt
            senders = {1: edzed.ExtEvent(rpt, fresh('ev')), 0: edzed.ExtEvent(rpt, fresh('other'))}
        elif v == 'implicit':
            src = edzed.Input(
                'src', initdef='init',
                on_output=edzed.Event(probe, 'ev', repeat=INTERVAL, count=count,
                                      efilter=edzed.not_from_undef))
            rpt_holder['r'] = next(iter(sim.circuit.getblocks(edzed.Repeat)), None)
            if rpt_holder['r'] is None:
                obs['errors'].append(('implicit-repeat-block-missing',
                                      f"Event(..., repeat={INTERVAL}, count={count}) created no Repeat block"))
            senders = {1: edzed.ExtEvent(src, 'put')}
        else:
            r2 = edzed.Repeat('r2', dest=probe, etype=fresh('ev'), interval=cfg['i2'], count=count)
            r1 = edzed.Repeat('r1', dest=r2, etype=fresh('ev'), interval=INTERVAL, count=cfg['c1'])
            rpt_holder['r'] = r2
            senders = {1: edzed.ExtEvent(r1, fresh('ev'))}

        async def driver():
            simtask = asyncio.create_task(sim.circuit.run_forever())
            await sim.circuit.wait_init()
            # arrivals are sent from timer callbacks (a task woken by a timer runs one loop
            # iteration later and could never precede a timer callback of the same instant)
            def send_one(i):
                t, m = arr[i]
                n0 = len(log)
                try:
                    if v == 'implicit':
                        senders[1].send(f"tag{i}")
                    else:
                        senders[m].send(tag=f"tag{i}", keep=i)
                except edzed.EdzedInvalidState as err:
                    if stop is not None and t == stop:
                        obs['sync'].append(None)    # lost the race against the stop: fine
                        return
                    obs['errors'].append(('send-refused', repr(err)))
                    return
                except Exception as err:    # pylint: disable=broad-except
                    obs['errors'].append(('send-raised', repr(err)))
                    return
                obs['sync'].append(len(log) - n0)

            groups = []
            for i, (t, m) in enumerate(arr):
                if stop is not None and t > stop:
                    break
                if groups and arr[groups[-1][0]][0] == t:
                    groups[-1].append(i)
                else:
                    groups.append([i])
            for grp in groups:
                done = loop.create_future()

                def run_group(grp=grp, k=0, done=done):
                    send_one(grp[k])
                    if k + 1 < len(grp):
                        if cfg['yb']:
                            loop.call_soon(run_group, grp, k + 1, done)
                        else:
                            run_group(grp, k + 1, done)
                    else:
                        done.set_result(None)
                loop.call_at(arr[grp[0]][0] * TICK / 1_000_000, run_group)
                await done
            end = horizon if stop is None else stop
            if loop.now_us < end * TICK or stop is not None:
                # the stop request too comes from a timer callback of that instant
                await loop.call_at_us(max(end * TICK, loop.now_us), sim.circuit.abort,
                                      asyncio.CancelledError('shutdown'))
            try:
                await sim.circuit.shutdown()
            except BaseException as err:    # pylint: disable=broad-except
                obs['errors'].append(('simulation-error', type(err).__name__ + ': ' + str(err)))
            obs['rpt_out_end'] = rpt_holder['r'].output
            n_at_stop = len(log)
            await loop.sleep_until_us((end + 3 * INTERVAL + 1) * TICK)
            obs['after_stop'] = len(log) - n_at_stop
            del simtask
        try:
            sim.run(driver())
        except Exception as err:    # pylint: disable=broad-except
            obs['errors'].append(('driver-died', repr(err)))
        obs['loop_exc'] = [c.get('message') for c in loop.exc_log]
    obs['log'] = log
    return obs


def judge(cfg, obs):
    """Return list of (sig, msg) violations for one execution."""
    errs = []
    v = cfg['v']
    arr = cfg['arr']
    stop = cfg['stop']
    count = cfg['count']
    horizon = arr[-1][0] + 14
    for kind, msg in obs['errors']:
        errs.append((f"{kind}:{v}", msg))
    if obs['loop_exc']:
        errs.append((f"loop-exception:{v}", str(obs['loop_exc'])))
    if errs:
        return errs
    log = obs['log']
    rname = {'explicit': 'rpt', 'implicit': '_Repeat_0', 'chain': 'r2'}[v]
    osrc = {'explicit': '_ext_', 'implicit': 'src', 'chain': 'r1'}[v]
    seq = []
    for (t_us, _name, etype, data, rout) in log:
        t = t_us / TICK
        t = int(t) if t == int(t) else t
        if etype != 'ev':
            errs.append(('wrong-etype', f"destination got event type {etype!r}"))
        if data.get('source') != rname:
            errs.append(('source-item', f"source={data.get('source')!r}, expected {rname!r}"))
        if data.get('orig_source') != osrc:
            errs.append(('orig-source-item',
                         f"orig_source={data.get('orig_source')!r}, expected {osrc!r}"))
        if 'repeat' not in data:
            errs.append(('repeat-item-missing', str(data)))
            continue
        if rout != data['repeat']:
            errs.append(('output-not-repeat-number',
                         f"Repeat.output={rout!r} while sending repeat={data['repeat']}"))
        if v == 'implicit':
            tag = data.get('value')
            if data.get('trigger') != 'output' or 'previous' not in data:
                errs.append(('data-items-lost', str(data)))
        else:
            tag = data.get('tag')
            if tag is None or data.get('keep') != int(tag[3:]):
                errs.append(('data-items-lost', str(data)))
        seq.append((t, tag, data['repeat']))
    if errs:
        return errs
    # arrivals that were really sent (matching only)
    sent = [(t, f"tag{i}") for i, (t, m) in enumerate(arr)
            if (stop is None or t <= stop)]
    flags = obs['sync']
    arrivals = []
    for (i, (t, tag)), s in zip(enumerate(sent), flags):
        m = arr[i][1]
        if s is None:
            continue        # refused at the stop instant
        if m:
            arrivals.append((t, tag))
            if v != 'chain' and s != 1:
                errs.append(('forward-not-synchronous',
                             f"event {tag} at {t}: {s} deliveries during send()"))
            if v == 'chain' and s != 1:
                errs.append(('forward-not-synchronous',
                             f"chain: event {tag} at {t}: {s} deliveries during send()"))
        elif s != 0:
            errs.append(('other-type-forwarded', f"non-matching event {tag} at {t} caused {s}"))
    if v == 'chain':
        end = horizon if stop is None else stop
        lvl1 = gen_stream(arrivals, INTERVAL, cfg['c1'], end + 0.5)
        arrivals2 = [(t, tag) for (t, tag, _r) in lvl1 if stop is None or t <= stop]
        # a level-1 re-send in the stop instant may or may not happen
        if stop is not None and arrivals2 and arrivals2[-1][0] == stop:
            zeros = [(t, tag) for (t, tag, r) in seq if r == 0]
            if zeros != arrivals2:
                arrivals2 = arrivals2[:-1]
        errs += check_stream(arrivals2, seq, cfg['i2'], count, stop, horizon)
    else:
        errs += check_stream(arrivals, seq, INTERVAL, count, stop, horizon)
    if obs.get('after_stop'):
        errs.append(('resend-after-stop', f"{obs['after_stop']} deliveries after shutdown()"))
    if seq and obs.get('rpt_out_end') != seq[-1][2]:
        errs.append(('output-not-repeat-number',
                     f"final output {obs.get('rpt_out_end')!r} != last repeat {seq[-1][2]}"))
    return [(f"{k}:{v}" if ':' not in k else k, m) for k, m in errs]


def run_stall(cfg, acc):
    log = []
    viol = []
    with Sim() as sim:
        loop = sim.loop
        hold_us = int(cfg['hold'] * INTERVAL * TICK)

        seen = [0]

        def extra():
            # called inside the destination's handler (deliveries are numbered like the repeats)
            if seen[0] == cfg['at']:
                loop.advance_us(hold_us)
            seen[0] += 1
            return None
        probe = Probe('probe', log=log, extra=extra)
        rpt = edzed.Repeat('rpt', dest=probe, etype='ev', interval=INTERVAL, count=cfg['count'])

        async def driver():
            task = asyncio.create_task(sim.circuit.run_forever())
            await sim.circuit.wait_init()
            edzed.ExtEvent(rpt, 'ev').send(tag='x')
            await loop.sleep_until_us(int((cfg['hold'] + 8) * INTERVAL * TICK))
            sim.circuit.abort(asyncio.CancelledError('stop'))
            try:
                await task
            except BaseException:   # pylint: disable=broad-except
                pass
        sim.run(driver())
    acc.execs += 1
    recs = [(t, d.get('repeat')) for (t, _n, _e, d, _x) in log]
    acc.outcome(('stall', cfg['count'], cfg['at'], cfg['hold'], tuple(recs)))
    acc.state(('stall', cfg['count'], cfg['at']))
    nums = [r for _t, r in recs]
    exp_n = len(nums)
    if nums != list(range(exp_n)) or exp_n < 4:
        viol.append(('repeat-numbering:stall', f"{cfg}: deliveries {recs}"))
    if cfg['count'] is not None and exp_n != cfg['count'] + 1:
        viol.append(('wrong-count:stall', f"{cfg}: {exp_n - 1} repetitions, expected {cfg['count']}: {recs}"))
    for (t1, r1), (t2, r2) in zip(recs, recs[1:]):
        gap = (t2 - t1) / TICK
        if gap < INTERVAL:
            viol.append(('resend-too-early:stall',
                         f"{cfg}: repetition {r2} came {gap} s after repetition {r1} (interval {INTERVAL} s; the "
                         f"handler of repetition {cfg['at']} held the CPU for {cfg['hold'] * INTERVAL} s): {recs}"))
            break
    return viol


def run_late(cfg, acc):
    log = []
    viol = []
    res = {}
    count = cfg['count']
    with Sim() as sim:
        loop = sim.loop
        holder = {}
        probe = Probe('probe', log=log, extra=lambda: holder['r'].output)
        if cfg['variant'] == 'explicit':
            rpt = edzed.Repeat('rpt', dest=probe, etype=fresh('ev'), interval=INTERVAL, count=count)
            last_word = edzed.Event(rpt, fresh('ev'))
        else:
            last_word = edzed.Event(probe, 'ev', repeat=INTERVAL, count=count)
            rpt = next(iter(sim.circuit.getblocks(edzed.Repeat)), None)
            if rpt is None:
                return [('implicit-repeat-block-missing',
                         f"Event(..., repeat={INTERVAL}, count={count}) created no Repeat block")]
        holder['r'] = rpt

        def say(blk):
            n0 = len(log)
            res['ret'] = last_word.send(blk, tag='final')
            res['sync'] = len(log) - n0
            res['t_final'] = loop.now_us

        class Sync(edzed.SBlock):
            def init_regular(self):
                self.set_output(0)

            def stop(self):
                if cfg['how'] == 'stop':
                    say(self)
                super().stop()

        class Slow(edzed.AddonAsync, edzed.SBlock):
            def init_regular(self):
                self.set_output(0)

            async def stop_async(self):
                await asyncio.sleep(2)
                say(self)
        last = (Sync if cfg['how'] == 'stop' else Slow)('lastword')
        first = edzed.Event(rpt, fresh('ev')) if cfg['variant'] == 'explicit' else last_word

        async def driver():
            task = asyncio.create_task(sim.circuit.run_forever())
            await sim.circuit.wait_init()
            if cfg['prior'] is not None:
                first.send(last, tag='prior')
                await loop.sleep_until_us(loop.now_us + cfg['prior'] * TICK)
            res['n_before'] = len(log)
            try:
                await sim.circuit.shutdown()
            except BaseException as err:    # pylint: disable=broad-except
                res['error'] = repr(err)
            res['out_end'] = rpt.output
            res['n_end'] = len(log)
            await loop.sleep_until_us(loop.now_us + (3 * INTERVAL + 1) * TICK)
            del task
        sim.run(driver())
    acc.execs += 1
    recs = [(t, d.get('tag'), d.get('repeat'), d.get('source'), d.get('orig_source'), out)
            for (t, _n, _e, d, out) in log]
    acc.outcome(('late', count, cfg['prior'], cfg['how'], cfg['variant'], tuple(recs)))
    acc.state(('late', count, cfg['how'], cfg['variant'], res.get('sync')))
    tag = (f"{cfg['variant']} Repeat(count={count}), prior event {cfg['prior']} s before shutdown(), last event "
           f"sent from another block's {cfg['how']}() after the Repeat block was stopped")
    if 'error' in res:
        viol.append(('simulation-error:late', f"{tag}: {res['error']}"))
        return viol
    if 'sync' not in res:
        viol.append(('driver-died:late', f"{tag}: the last event was never sent"))
        return viol
    finals = [r for r in recs if r[1] == 'final']
    if res['sync'] != 1 or len(finals) != 1 or finals[0][2] != 0 or finals[0][0] != res['t_final']:
        viol.append(('forward-immediately:late',
                     f"{tag}: {res['sync']} deliveries during send(), deliveries of the last event: {finals}"))
    elif finals[0][3] != rpt.name or finals[0][4] != 'lastword' or finals[0][5] != 0:
        viol.append(('data-items:late', f"{tag}: delivered as {finals[0]}"))
    elif res['out_end'] != 0:
        viol.append(('output-not-repeat-number:late', f"{tag}: final output {res['out_end']!r}, last repeat number 0"))
    if len(log) != res['n_end']:
        viol.append(('resend-after-stop:late', f"{tag}: deliveries after shutdown(): {recs[res['n_end']:]}"))
    if any(r[1] == 'final' and r[2] != 0 for r in recs):
        viol.append(('resend-after-stop:late', f"{tag}: the last event was re-sent: {recs}"))
    return viol


def run_config(cfg):
    acc = Acc()
    if cfg.get('kind') == 'late':
        for sig, msg in run_late(cfg, acc):
            acc.violation(f"C18:{sig}", msg, cfg=cfg)
        return acc
    if cfg.get('kind') == 'stall':
        for sig, msg in run_stall(cfg, acc):
            acc.violation(f"C18:{sig}", msg, cfg=cfg)
        return acc
    ex = explore(lambda ch: one_exec(cfg, ch))
    for ch, obs in ex:
        acc.execs += 1
        acc.choice_points += sum(1 for t in ch.trace if t[0] > 1)
        canon = (cfg['v'], cfg['count'], cfg.get('c1'), cfg.get('i2'),
                 tuple((t, e, tuple(sorted(d.items())), r) for (t, _n, e, d, r) in obs['log']))
        acc.outcome(canon)
        # states: (variant, count, time-since-last-event, repeat number) at every delivery
        prev = acc.state(('init', cfg['v'], cfg['count']))
        t_last = None
        for (t, _n, _e, d, r) in obs['log']:
            if d.get('repeat') == 0:
                t_last = t
            st = acc.state((cfg['v'], cfg['count'], cfg.get('i2'),
                            None if t_last is None else (t - t_last) // TICK, d.get('repeat')))
            acc.transition(prev, 'deliver', st)
            prev = st
        for sig, msg in judge(cfg, obs):
            acc.violation(f"C18:{sig}", msg, cfg=cfg, choices=ch.choices,
                          detail={'log': [(t / TICK, e, d, r) for (t, _n, e, d, r) in obs['log']],
                                  'errors': obs['errors']})
        if acc.execs == 1:
            acc.sample({'cfg': cfg, 'choices': ch.choices,
                        'log': [(t / TICK, d.get('tag', d.get('value')), d.get('repeat'))
                                for (t, _n, _e, d, _r) in obs['log']]}, limit=2)
    return acc

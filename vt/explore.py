"""
Stateless, deviation-bounded explorer (CHESS style) + result accumulator.

An *execution* is a deterministic function of the configuration and of the sequence of
answers given at choice points (tie orders, latencies, set orders, injected faults...).
choose(n, kind) answers 0 unless the replayed prefix says otherwise.  explore() runs the
all-default execution, then every execution reachable by changing one answer after the
prefix, depth first, while the number of non-default answers stays within max_dev
(None = unbounded = every combination).  A mismatch while replaying a prefix is a hard
harness error (HarnessError), never a violation.
"""
from __future__ import annotations

import hashlib
import json


class HarnessError(Exception):
    """The harness itself misbehaved (non-determinism, bad replay). Exit code 2."""


class Chooser:
    def __init__(self, prefix=(), expect=None):
        self.prefix = list(prefix)
        self.expect = expect        # [(n, kind)] seen when the prefix was generated
        self.trace = []             # [(n, kind, chosen)]

    def choose(self, n: int, kind: str = '') -> int:
        i = len(self.trace)
        if i < len(self.prefix):
            c = self.prefix[i]
            if self.expect is not None and self.expect[i] != (n, kind):
                raise HarnessError(
                    f"replay divergence at choice #{i}: expected {self.expect[i]}, got {(n, kind)}")
            if not 0 <= c < n:
                raise HarnessError(f"replay choice #{i}={c} out of range({n}) kind={kind}")
        else:
            c = 0
        self.trace.append((n, kind, c))
        return c

    @property
    def choices(self):
        return [t[2] for t in self.trace]


class explore:
    """
    Iterable of (chooser, observation) for every execution within the bound.
    run_one(chooser) -> observation.  dev_kinds: kinds that count as deviations
    (None = all kinds).  After iteration: .execs, .capped (True if max_execs cut it short).
    """

    def __init__(self, run_one, max_dev=None, max_execs=None, dev_kinds=None, prefix=()):
        self.prefix = list(prefix)
        self.run_one = run_one
        self.max_dev = max_dev
        self.max_execs = max_execs
        self.dev_kinds = dev_kinds
        self.execs = 0
        self.capped = False

    def __iter__(self):
        stack = [(self.prefix, None)]
        dev_kinds, max_dev = self.dev_kinds, self.max_dev
        while stack:
            prefix, expect = stack.pop()
            ch = Chooser(prefix, expect)
            obs = self.run_one(ch)
            self.execs += 1
            yield ch, obs
            dev = sum(1 for (_n, k, c) in ch.trace[:len(prefix)]
                      if c and (dev_kinds is None or k in dev_kinds))
            trace = ch.trace
            for i in range(len(trace) - 1, len(prefix) - 1, -1):
                n, kind, _c = trace[i]
                if n < 2:
                    continue
                counts = dev_kinds is None or kind in dev_kinds
                if counts and max_dev is not None and dev + 1 > max_dev:
                    continue
                base = [t[2] for t in trace[:i]]
                exp = [(t[0], t[1]) for t in trace[:i + 1]]
                for alt in range(n - 1, 0, -1):
                    stack.append((base + [alt], exp))
            if self.max_execs is not None and self.execs >= self.max_execs and stack:
                self.capped = True
                return


def h64(obj) -> int:
    """Stable 64-bit hash of a JSON-able / repr-able canonical object."""
    if not isinstance(obj, (str, bytes)):
        obj = repr(obj)
    if isinstance(obj, str):
        obj = obj.encode()
    return int.from_bytes(hashlib.blake2b(obj, digest_size=8).digest(), 'big')


class Acc:
    """Accumulator of coverage and violations; mergeable across worker processes."""

    MAX_VIOL_PER_SIG = 3

    def __init__(self):
        self.execs = 0
        self.configs = 0
        self.states = set()
        self.trans = set()
        self.outcomes = set()
        self.distinct = 0           # cases distinct by construction, counted (not hashed)
        self.choice_points = 0
        self.counters = {}
        self.violations = []        # dicts: sig, msg, cfg, choices, detail
        self._viol_count = {}
        self.samples = []
        self.caps = []

    def state(self, canon) -> int:
        h = canon if isinstance(canon, int) else h64(canon)
        self.states.add(h)
        return h

    def transition(self, h1, label, h2) -> None:
        self.trans.add(h64((h1, label, h2)))

    def outcome(self, obs) -> None:
        self.outcomes.add(h64(obs))

    def count(self, key, n=1) -> None:
        self.counters[key] = self.counters.get(key, 0) + n

    def sample(self, s, limit=3) -> None:
        if len(self.samples) < limit:
            self.samples.append(s)

    def violation(self, sig, msg, cfg=None, choices=None, detail=None) -> None:
        k = self._viol_count.get(sig, 0)
        self._viol_count[sig] = k + 1
        if k < self.MAX_VIOL_PER_SIG:
            self.violations.append(
                dict(sig=sig, msg=msg, cfg=cfg, choices=choices, detail=detail))

    def merge(self, other: "Acc") -> None:
        self.execs += other.execs
        self.configs += other.configs
        self.states |= other.states
        self.trans |= other.trans
        self.outcomes |= other.outcomes
        self.distinct += other.distinct
        self.choice_points += other.choice_points
        for k, v in other.counters.items():
            self.counters[k] = self.counters.get(k, 0) + v
        for v in other.violations:
            k = self._viol_count.get(v['sig'], 0)
            self._viol_count[v['sig']] = k + 1
            if k < self.MAX_VIOL_PER_SIG:
                self.violations.append(v)
        for s in other.samples:
            self.sample(s)
        self.caps.extend(c for c in other.caps if c not in self.caps)


def jsonable(x):
    try:
        json.dumps(x)
        return x
    except (TypeError, ValueError):
        if isinstance(x, dict):
            return {str(k): jsonable(v) for k, v in x.items()}
        if isinstance(x, (list, tuple, set, frozenset)):
            return [jsonable(v) for v in x]
        return repr(x)

"""
C07 - TimeDate and TimeSpan outputs follow the wall clock.

The real TimeDate / TimeSpan / Cron code runs on the virtual loop with a virtual wall clock
(time.time and the cron module's datetime/time are harness-owned; every clock read takes time).
Enumerated: start instants and 'reconfig' instants on a sub-millisecond grid around every
boundary of the same and of another block, an interval catalogue (wrapping, equal endpoints,
microsecond endpoints, on/off full hours, adjacent ranges, empty, None, dates incl. Dec 31 -
Jan 1 and Feb 29, weekdays, TimeSpan ranges across midnight / year end / in the past), 1-3
blocks per scheduler, local and UTC mode, clock-read latency, timer wake-up latency and CPU held
by the sender (deviation bounded), clock jumps at chosen instants, multi-day runs.
Oracle: an independent calendar predicate, sampled before/after every boundary (outside a
guard of a few ms), mid-range and every 10 virtual minutes.
"""
from __future__ import annotations

import asyncio
import datetime as dt
import itertools

import edzed

from ..explore import Acc, explore
from ..harness import Sim, Livelock
from .. import vclock, nets

PROPERTY = 'C07'
LEVEL = 'model_checking'
LEVEL_TEXT = ("Bounded exhaustive model checking of the real cron scheduler and TimeDate/TimeSpan "
              "blocks on a virtual wall clock: every (configuration, boundary, start or reconfig "
              "offset on a sub-millisecond grid, CPU hold, clock-read latency) case is run under "
              "every placement of <=1 (thorough: 2) timer wake-up latency deviations; clock jumps "
              "at chosen instants; runs across midnight, month and year ends and Feb 29; outputs "
              "are compared with an independent calendar predicate at sample instants around "
              "every boundary, mid-range and every 10 minutes.")
LEVEL_NOTE = ("Guard around boundaries: 5 ms + injected latencies; the wall clock is the loop clock "
              "plus a jump offset (no drift, no DST: local and UTC mode read the same clock); "
              "latency alphabet {0, 0.2, 0.8, 2} ms, clock-read latency {1, 20} us, CPU hold {0, 1.5} ms.")
TECHNIQUE = ("stateless model checking of the implementation (virtual wall clock, latency-deviation "
             "bounded schedule enumeration) vs. calendar predicate")
RULE = ("a case = (block configurations, scenario, boundary, offset, hold, read latency) x latency "
        "choices; state = (configuration, time class, outputs); outcome = sampled output trace; "
        "distinct = distinct traces")
ASSUMPTIONS = [
    "reference: times left-closed/right-open with wrap, dates inclusive with year wrap, weekdays "
    "1..7 (7 = Sunday), TimeSpan ranges [start, stop) (docs/sblocks2.rst)",
    "'a few milliseconds' = 5 ms + the latency injected in that execution",
]

US = 1_000_000
EPOCH = dt.datetime(1970, 1, 1)
GUARD_US = 5000
LATS = (0, 200, 800, 2000)
OFFSETS = (-3000, -1500, -1001, -1000, -500, -1, 0, 1, 500, 2000)


def wall(y, mo, d, h=0, mi=0, s=0, us=0):
    return int((dt.datetime(y, mo, d, h, mi, s) - EPOCH).total_seconds()) * US + us


def to_dt(us):
    return EPOCH + dt.timedelta(microseconds=us)


# ------------------------------------------------------------------ catalogue

# TimeDate: times as list of ((h,m,s,us),(h,m,s,us)) or None; dates list of ((mo,d),(mo,d)) or None;
# weekdays list or None
TD = {
    'hour': dict(times=[((12, 0, 0, 0), (13, 0, 0, 0))]),
    'offhour': dict(times=[((12, 10, 0, 0), (12, 20, 0, 0))]),
    'wrap': dict(times=[((23, 50, 0, 0), (0, 10, 0, 0))]),
    'whole': dict(times=[((12, 10, 0, 0), (12, 10, 0, 0))]),
    'micro': dict(times=[((12, 10, 0, 1), (12, 10, 0, 500000))]),
    # endpoints closer together than a wake-up latency (the next wake-up time has passed already)
    'micro2': dict(times=[((12, 10, 0, 100), (12, 10, 0, 300))]),
    'adjacent': dict(times=[((12, 10, 0, 0), (12, 20, 0, 0)), ((12, 20, 0, 0), (12, 30, 0, 0))]),
    'two': dict(times=[((11, 50, 0, 0), (12, 5, 0, 0)), ((12, 40, 0, 0), (13, 0, 0, 0))]),
    'mid0': dict(times=[((0, 0, 0, 0), (6, 0, 0, 0))]),
    'whole0': dict(times=[((0, 0, 0, 0), (0, 0, 0, 0))]),
    'tomid': dict(times=[((22, 0, 0, 0), (0, 0, 0, 0))]),
    'share': dict(times=[((12, 10, 0, 0), (12, 30, 0, 0))]),
    'feb29': dict(dates=[((2, 29), (2, 29))]),
    'thu': dict(weekdays=[4]),
    # a wrapping range that sorts AFTER an ordinary one (moments after midnight / New Year)
    'wrap2': dict(times=[((8, 0, 0, 0), (12, 0, 0, 0)), ((22, 0, 0, 0), (2, 0, 0, 0))]),
    'wrapdates': dict(dates=[((3, 1), (4, 10)), ((12, 15), (1, 15))]),
    'wrapboth': dict(times=[((6, 0, 0, 0), (7, 0, 0, 0)), ((23, 0, 0, 0), (1, 0, 0, 0))],
                     dates=[((1, 2), (1, 2)), ((12, 31), (1, 1))]),
    'r1145': dict(times=[((11, 45, 0, 0), (11, 50, 0, 0))]),
    'empty': dict(times=[]),
    'none': dict(),
    'dates': dict(dates=[((2, 28), (3, 1))]),
    'leapday': dict(dates=[((2, 29), (2, 29))], times=[((0, 0, 0, 0), (12, 10, 0, 0))]),
    'yearend': dict(dates=[((12, 31), (1, 1))], times=[((23, 50, 0, 0), (0, 10, 0, 0))]),
    'wed': dict(weekdays=[3], times=[((12, 10, 0, 0), (12, 20, 0, 0))]),
    'weekend': dict(weekdays=[6, 7]),
    'emptydates': dict(dates=[], times=[((12, 0, 0, 0), (13, 0, 0, 0))]),
    'emptywd': dict(weekdays=[]),
    # a wake-up time within the scheduler's wake-up latency before midnight
    'lastms': dict(times=[((23, 59, 59, 999000), (0, 30, 0, 0))]),
    'lastms2': dict(times=[((22, 0, 0, 0), (23, 59, 59, 999500))]),
}
TS = {
    'span': dict(span=[((2024, 2, 28, 12, 10, 0, 0), (2024, 2, 28, 12, 20, 0, 0))]),
    'span-midnight': dict(span=[((2024, 2, 28, 23, 50, 0, 0), (2024, 2, 29, 0, 10, 0, 0))]),
    'span-yearend': dict(span=[((2023, 12, 31, 23, 50, 0, 0), (2024, 1, 1, 0, 10, 0, 500000))]),
    'span-past': dict(span=[((2020, 1, 1, 0, 0, 0, 0), (2020, 1, 2, 0, 0, 0, 0))]),
    'span-empty': dict(span=[]),
    # past-dated range whose endpoints have the times of day of block 'hour'
    'span-past-hour': dict(span=[((2023, 2, 28, 12, 0, 0, 0), (2023, 2, 28, 13, 0, 0, 0))]),
    # past-dated range with the same times of day as 'span' (a yearly event being updated)
    'span-past-same': dict(span=[((2023, 2, 28, 12, 10, 0, 0), (2023, 2, 28, 12, 20, 0, 0))]),
    'span-two': dict(span=[((2024, 2, 28, 11, 50, 0, 0), (2024, 2, 28, 12, 15, 0, 0)),
                           ((2024, 2, 28, 12, 15, 0, 0), (2024, 2, 28, 12, 45, 0, 1))]),
    'span-inverted': dict(span=[((2024, 2, 28, 12, 20, 0, 0), (2024, 2, 28, 12, 10, 0, 0))]),
}


def _span_family():
    """
    Spans around DAY whose endpoints share days and times of day in every combination (an
    endpoint dropped by a reconfiguration may share its time of day with one that is kept).
    """
    fam = {}
    for sd in (27, 28):
        for st in (10, 15):
            for ed in (28, 29):
                for et in (10, 15, 20):
                    a, b = (2024, 2, sd, 12, st, 0, 0), (2024, 2, ed, 12, et, 0, 0)
                    if a < b:
                        fam[f"span-f{sd}{st}-{ed}{et}"] = dict(span=[(a, b)])
    return fam


SPAN_FAMILY = _span_family()
TS.update(SPAN_FAMILY)
CAT = {**TD, **TS}


def is_span(name):
    return name.startswith('span')


def tod_us(t4):
    h, m, s, us = t4
    return ((h * 60 + m) * 60 + s) * US + us


def predicate(name, w_us):
    """Expected output of a block configured as CAT[name] at wall time w_us."""
    c = CAT[name]
    now = to_dt(w_us)
    if is_span(name):
        return any(dt.datetime(*a) <= now < dt.datetime(*b) for a, b in c['span'])
    times, dates, wds = c.get('times'), c.get('dates'), c.get('weekdays')
    if times is None and dates is None and wds is None:
        return False
    if times is not None:
        t = ((now.hour * 60 + now.minute) * 60 + now.second) * US + now.microsecond
        ok = False
        for a, b in times:
            ua, ub = tod_us(a), tod_us(b)
            ok |= (ua <= t < ub) if ua < ub else (t >= ua or t < ub)
        if not ok:
            return False
    if dates is not None:
        md = (now.month, now.day)
        ok = False
        for a, b in dates:
            ok |= (a <= md <= b) if a <= b else (md >= a or md <= b)
        if not ok:
            return False
    if wds is not None:
        if now.isoweekday() not in wds:
            return False
    return True


def boundaries(names, lo_us, hi_us):
    """All instants in [lo, hi] where some block's predicate may change."""
    out = set()
    day0 = to_dt(lo_us).replace(hour=0, minute=0, second=0, microsecond=0)
    ndays = (to_dt(hi_us) - day0).days + 2
    for name in names:
        c = CAT[name]
        if is_span(name):
            for a, b in c['span']:
                for e in (a, b):
                    out.add(int((dt.datetime(*e[:6]) - EPOCH).total_seconds()) * US + e[6])
        else:
            tods = {0}
            for a, b in c.get('times') or []:
                tods |= {tod_us(a), tod_us(b)}
            for k in range(ndays):
                base = int((day0 + dt.timedelta(days=k) - EPOCH).total_seconds()) * US
                out |= {base + t for t in tods}
    return sorted(b for b in out if lo_us <= b <= hi_us)


def mk_args(name):
    """Constructor / reconfig arguments in numeric notation."""
    c = CAT[name]
    if is_span(name):
        return dict(span=[[list(a), list(b)] for a, b in c['span']])
    out = {}
    if c.get('times') is not None:
        out['times'] = [[list(a), list(b)] for a, b in c['times']]
    if c.get('dates') is not None:
        out['dates'] = [[list(a), list(b)] for a, b in c['dates']]
    if c.get('weekdays') is not None:
        out['weekdays'] = list(c['weekdays'])
    return out


# ------------------------------------------------------------------ configs

DAY = wall(2024, 2, 28)     # Wednesday of a leap year


def boff(cfg):
    """Offset (us) of the time the blocks of this configuration follow from UTC wall time."""
    return 0 if cfg.get('utc') else cfg.get('tz', 0) * 3600 * US


def wboundaries(cfg, names, lo_us, hi_us):
    o = boff(cfg)
    return [b - o for b in boundaries(names, lo_us + o, hi_us + o)]


def first_boundaries(name, day=DAY):
    bs = [b for b in boundaries([name], day + 1, day + 24 * 3600 * US - 1)]
    if is_span(name):
        bs = boundaries([name], 0, wall(2030, 1, 1))
    # the cron's own hourly wake-ups are interesting instants too
    return bs[:3]


def configs(tier):
    out = []
    singles = ['lastms', 'lastms2', 'hour', 'offhour', 'wrap', 'whole', 'micro', 'adjacent', 'two', 'wed', 'leapday',
               'span', 'span-midnight', 'span-two', 'span-yearend', 'yearend']
    # S1: start instants around every boundary
    for name in singles:
        for b in first_boundaries(name):
            for off in OFFSETS:
                for rl in (1, 20):
                    for utc in ((False, True) if off == 0 else (False,)):
                        out.append(dict(kind='start', blocks=(name,), t0=b + off, span=2 * 3600 * US + 60 * US,
                                        read_lat=rl, utc=utc, actions=()))
    # S1z: the local zone is far from UTC (the local date differs from the UTC date for most of
    # the day): blocks in UTC mode follow UTC, the others local time; instants are given in the
    # time the blocks follow
    for name in ('span', 'span-midnight', 'hour', 'wrap', 'dates', 'yearend', 'wed', 'span-yearend'):
        for b in first_boundaries(name)[:2]:
            for off in (-1500, 500):
                for tz in (14, -11):
                    for utc in (False, True):
                        c = dict(kind='start', blocks=(name,), span=2 * 3600 * US + 60 * US,
                                 read_lat=1, utc=utc, actions=(), tz=tz)
                        c['t0'] = b + off - boff(c)
                        out.append(c)
    # ... and a reconfiguration there
    for old, new in (('span-f2810-2815', 'span-f2815-2920'), ('hour', 'offhour'), ('span-past', 'span')):
        for tz in (14, -11):
            for utc in (False, True):
                c = dict(kind='reconfig-days', blocks=(old, 'hour'), span=int(25 * 3600 * US), read_lat=1,
                         utc=utc, tz=tz, max_dev=0)
                c['t0'] = DAY + 11 * 3600 * US + 50 * 60 * US - boff(c)
                c['actions'] = (('reconfig', c['t0'] + 5 * 60 * US + 7, 0, new, 0),)
                out.append(c)
    # S1m: several blocks whose wake-up times are microseconds apart
    for names in (('offhour', 'micro', 'micro2'), ('micro2', 'share'), ('micro', 'micro2', 'wed', 'whole')):
        b = DAY + 12 * 3600 * US + 10 * 60 * US
        for off in (-3000, -1500, -1000, -500, -100, 0, 150):
            for rl in (1, 20):
                out.append(dict(kind='start', blocks=names, t0=b + off, span=3600 * US, read_lat=rl,
                                utc=False, actions=()))
    # plain starts of every catalogue entry, one to three blocks, mid-day
    for names in [(n,) for n in CAT] + [('hour', 'offhour'), ('wrap', 'span-midnight', 'wed'),
                                       ('span-past', 'none'), ('span-empty',), ('span-past', 'span-empty'),
                                       ('emptydates', 'emptywd', 'weekend')]:
        out.append(dict(kind='start', blocks=names, t0=DAY + 11 * 3600 * US + 7, span=14 * 3600 * US,
                        read_lat=1, utc=False, actions=()))
    # S2: reconfiguration of block y (and of x itself) around a boundary of block x
    pairs = [('hour', 'span-past-hour', 'span'), ('hour', 'span-past-same', 'span'), ('hour', 'offhour', 'micro'), ('offhour', 'hour', 'two'), ('wrap', 'offhour', 'adjacent'),
             ('span', 'hour', 'offhour'), ('adjacent', 'span-two', 'span'), ('two', 'none', 'offhour'),
             ('hour', 'span-empty', 'span-two'), ('micro', 'offhour', 'wrap')]
    if tier == 'quick':
        pairs = pairs[:7]
    for x, y, y2 in pairs:
        for b in first_boundaries(x)[:2]:
            for off in OFFSETS:
                for hold in (0, 1500):
                    for who in ('other', 'self'):
                        if who == 'self' and is_span(x) != is_span(y2):
                            continue
                        act = (('reconfig', b + off, 1 if who == 'other' else 0, y2, hold),)
                        out.append(dict(kind='reconfig', blocks=(x, y), t0=b - 600 * US, span=3 * 3600 * US,
                                        read_lat=1, utc=False, actions=act))
    # S2b: reconfigurations followed by a run across midnight (registrations must survive)
    for old in ('mid0', 'whole0', 'tomid', 'wrap', 'hour'):
        for new in ('dates', 'weekend', 'wed', 'leapday', 'offhour', 'none', 'mid0', 'feb29', 'thu'):
            t0 = DAY + 20 * 3600 * US
            act = (('reconfig', t0 + 3600 * US + 7, 0, new, 0),)
            if tier != 'quick' or new in ('dates', 'leapday', 'mid0', 'feb29', 'thu'):
                out.append(dict(kind='reconfig-days', blocks=(old, 'wed'), t0=t0,
                                span=int(1.4 * 24 * 3600 * US), read_lat=1, utc=False, actions=act,
                                max_dev=0))
            act2 = (('reconfig', t0 + 3600 * US + 7, 0, 'offhour', 0),
                    ('reconfig', t0 + 2 * 3600 * US + 7, 0, new, 0))
            out.append(dict(kind='reconfig-days', blocks=(old, 'wed'), t0=t0,
                            span=int(1.4 * 24 * 3600 * US), read_lat=1, utc=False, actions=act2,
                            max_dev=0))
    # S2e: a span reconfigured into a span sharing days / times of day with the old one, then a
    # run over all remaining endpoints
    fam = sorted(SPAN_FAMILY)
    for old in fam:
        for new in fam:
            if new == old:
                continue
            t0 = DAY + 11 * 3600 * US + 50 * 60 * US
            for when in (5 * 60 * US + 7, 22 * 60 * US + 7):    # 11:55: before the endpoints; 12:12: between them
                act = (('reconfig', t0 + when, 0, new, 0),)
                out.append(dict(kind='reconfig-days', blocks=(old, 'hour'), t0=t0,
                                span=int(25 * 3600 * US), read_lat=1, utc=False, actions=act,
                                max_dev=0))
    # S2f: a block restricted by dates / weekdays that do not match today is reconfigured to
    # times only (and the other way round)
    for old in ('thu', 'feb29', 'weekend', 'leapday', 'dates'):
        for new in ('hour', 'offhour', 'two', 'wrap'):
            for a, b in ((old, new), (new, old)):
                t0 = DAY + 11 * 3600 * US + 50 * 60 * US
                act = (('reconfig', t0 + 5 * 60 * US + 7, 0, b, 0),)
                out.append(dict(kind='reconfig-days', blocks=(a, 'hour'), t0=t0, span=int(14 * 3600 * US),
                                read_lat=1, utc=False, actions=act, max_dev=0))
    # S2c: a block's output event reconfigures another block that shares the boundary, i.e. the
    # reconfiguration arrives from inside the scheduler's own round (both set orders)
    for a, b, new in (('offhour', 'share', 'two'), ('offhour', 'adjacent', 'hour'),
                      ('share', 'offhour', 'micro'), ('adjacent', 'share', 'none'),
                      ('offhour', 'offhour', 'share'), ('micro', 'share', 'offhour')):
        for order in ((0, 1), (1, 0)):
            out.append(dict(kind='chain', blocks=(a, b), t0=DAY + 12 * 3600 * US + 5 * 60 * US,
                            span=2 * 3600 * US, read_lat=1, utc=False, actions=(), chain=new,
                            order=order))
    # S2d: the reload lands within microseconds of another block's boundary: the instant at
    # which the scheduler task resumes is swept over the boundary in 1-2 us steps
    for x, y, y2 in pairs[:2]:
        b = first_boundaries(x)[0]
        for hold, rl in ((0, 1), (0, 20), (1500, 1), (1500, 20)):
            lo, hi, step = (-hold - 16, -hold + 6, 1) if rl == 1 else (-hold - 130, -hold + 30, 3)
            for off in range(lo, hi, step):
                act = (('reconfig', b + off, 1, y2, hold),)
                out.append(dict(kind='reconfig', blocks=(x, y), t0=b - 600 * US, span=3600 * US,
                                read_lat=rl, utc=False, actions=act, max_dev=0))
    # S3: multi-day runs
    for names, t0, days in [(('wrap2', 'wrapdates', 'wrapboth'), wall(2023, 12, 31, 18), 1.8),(('yearend', 'dates', 'weekend'), wall(2023, 12, 30, 12), 3.2),
                            (('leapday', 'dates', 'wed'), wall(2024, 2, 27, 22), 3.2),
                            (('span-yearend', 'wrap', 'hour'), wall(2023, 12, 31, 20), 1.5),
                            (('leapday', 'weekend'), wall(2023, 2, 27, 22), 2.2)]:
        for utc in (False, True):
            out.append(dict(kind='days', blocks=names, t0=t0, span=int(days * 24 * 3600 * US),
                            read_lat=1, utc=utc, actions=(), max_dev=0 if tier == 'quick' else 1,
                            max_execs=2000))
    # S4: clock jumps
    jumps = [30 * US, 600 * US, 3600 * US, -30 * US]
    for names in [('hour',), ('offhour', 'wrap'), ('span',), ('span-past',), ('span-empty', 'span-past'),
                  ('micro', 'span-two', 'wed')]:
        for j in jumps:
            for when in ('mid-sleep', 'before-wakeup', 'after-wakeup', 'at-boundary'):
                out.append(dict(kind='jump', blocks=names, t0=DAY + 11 * 3600 * US + 30 * 60 * US,
                                span=5 * 3600 * US, read_lat=1, utc=False,
                                actions=(('jump', when, j),)))
    # S4d: jumps late in the evening (the clock reset finds no later entry in today's schedule)
    # and across midnight
    for names in [('hour',), ('wrap', 'dates'), ('span-midnight', 'wed'), ('leapday', 'weekend'), ('mid0', 'thu')]:
        for t0 in (DAY + 23 * 3600 * US + 5 * 60 * US, DAY + 23 * 3600 * US + 40 * 60 * US,
                   DAY + 22 * 3600 * US + 30 * 60 * US):
            for j in (30 * US, 600 * US, 1500 * US, 3600 * US, 2 * 3600 * US, -30 * US):
                for when in ('mid-sleep', 'before-wakeup', 'after-wakeup', 'at-boundary'):
                    out.append(dict(kind='jump', blocks=names, t0=t0, span=6 * 3600 * US, read_lat=1,
                                    utc=False, actions=(('jump', when, j),)))
    # S4c: a forward jump, and much later a reconfiguration that adds a boundary shortly before
    # the scheduler's next wake-up (the scheduler must still listen for reloads then)
    for j in (30 * US, 600 * US, 3600 * US):
        for lead in (20 * 60 * US, 8 * 60 * US, 6 * 60 * US + 30 * US):
            t0 = DAY + 9 * 3600 * US + 30 * 60 * US
            act = (('jump', 'mid-sleep', j),
                   ('reconfig', DAY + 11 * 3600 * US + 45 * 60 * US - lead, 1, 'r1145', 0))
            out.append(dict(kind='jump', blocks=('hour', 'none'), t0=t0, span=3 * 3600 * US + j,
                            read_lat=1, utc=False, actions=act, max_dev=0))
    # S4b: the clock reset (detected at the next wake-up) lands within microseconds of a boundary
    for names, bnd in ((('offhour',), DAY + 12 * 3600 * US + 20 * 60 * US),
                       (('span', 'hour'), DAY + 12 * 3600 * US + 10 * 60 * US)):
        t0 = DAY + 11 * 3600 * US + 30 * 60 * US
        wake = DAY + 12 * 3600 * US            # the scheduler sleeps until 12:00
        for rl in (1, 20):
            # (the scheduler wakes about 1 ms early - its overhead estimate - so the window is swept
            # over the whole last millisecond)
            for eps in (range(-1040, 12) if rl == 1 else range(-1100, 120, 3)):
                delta = bnd - eps - wake
                out.append(dict(kind='jump', blocks=names, t0=t0, span=4 * 3600 * US, read_lat=rl,
                                utc=False, actions=(('jump', 'mid-sleep', delta),), max_dev=0))
    if tier == 'thorough':
        for c in out:
            c.setdefault('max_dev', 2)      # up to two wake-up latency deviations per execution
            c.setdefault('max_execs', 20000)
    return out


# ------------------------------------------------------------------ execution

def one_exec(cfg, chooser, lat_alphabet):
    names = cfg['blocks']
    obs = {'samples': [], 'errors': [], 'lat_used': 0}
    with Sim(chooser, cron=True, base_unix_us=cfg['t0'], read_lat_us=cfg['read_lat'],
             latencies_us=lat_alphabet, max_iterations=200_000,
             lat_harness_timers=False, tz_hours=cfg.get('tz', 0)) as sim:
        loop = sim.loop
        circuit = sim.circuit
        blocks = []
        chain = cfg.get('chain')
        if chain is not None:
            nets.install_rank_hash()
        current = list(names)
        for i, name in enumerate(names):
            kw = {}
            if chain is not None and i == 0:
                # every change of b0's output reconfigures b1 (alternating between two configs)
                def edit(data, _st={'n': 0}):
                    _st['n'] += 1
                    new = chain if _st['n'] % 2 else names[1]
                    current[1] = new
                    full = {'times': None, 'dates': None, 'weekdays': None}
                    full.update(mk_args(new))
                    return full
                kw['on_output'] = edzed.Event('b1', 'reconfig',
                                              efilter=[edzed.not_from_undef, edit])
            if is_span(name):
                blocks.append(edzed.TimeSpan(f'b{i}', utc=cfg['utc'], **mk_args(name), **kw))
            else:
                blocks.append(edzed.TimeDate(f'b{i}', utc=cfg['utc'], **mk_args(name), **kw))
        if chain is not None:
            nets.set_ranks(blocks, cfg['order'])
        t_end = cfg['t0'] + cfg['span']
        state = {'jump': 0, 'jump_at': None, 'hold': 0}

        def wnow():
            return vclock.wall_us()

        def sample(label):
            w = wnow()
            obs['samples'].append((w, label, tuple(current), tuple(b.output for b in blocks),
                                   state['jump_at'], circuit.error))

        async def sleep_until_wall(w):
            # the driver sleeps on the loop clock; wall = t0 + loop time + jump
            target_loop = w - cfg['t0'] - state['jump']
            if target_loop > loop.now_us:
                await loop.sleep_until_us(target_loop)

        async def driver():
            task = asyncio.create_task(circuit.run_forever())
            try:
                await circuit.wait_init()
            except Exception as err:    # pylint: disable=broad-except
                obs['errors'].append(('start', repr(err), repr(circuit.error)))
                return
            sample('after-init')
            # plan: actions and sample instants, in wall time
            acts = []
            for a in cfg['actions']:
                if a[0] == 'reconfig':
                    acts.append((a[1], a))
                else:
                    when = a[1]
                    bs = wboundaries(cfg, names, cfg['t0'] + 1, t_end)
                    nxt = bs[0] if bs else cfg['t0'] + 1800 * US
                    hour_next = (cfg['t0'] // (3600 * US) + 1) * 3600 * US
                    w = {'mid-sleep': cfg['t0'] + 600 * US, 'before-wakeup': hour_next - 1000,
                         'after-wakeup': hour_next + 1500, 'at-boundary': nxt - 300}[when]
                    acts.append((w, a))
            horizon = t_end
            guard = GUARD_US + max(lat_alphabet) + max([a[4] for _w, a in acts if a[0] == 'reconfig'] + [0])
            plan = set()
            bs_all = wboundaries(cfg, set(names) | {a[3] for _w, a in acts if a[0] == 'reconfig'},
                                 cfg['t0'], horizon + 2 * 3600 * US)
            for b in bs_all:
                plan |= {b - guard, b + guard}
            for b1, b2 in zip(bs_all, bs_all[1:]):
                plan.add((b1 + b2) // 2)
            step = 600 * US
            k = cfg['t0'] // step + 1
            while k * step < horizon:
                plan.add(k * step + 17)
                k += 1
            for w, _a in acts:
                plan |= {w - guard, w + guard + 2000}
            events = sorted([(w, 'sample', None) for w in plan if cfg['t0'] < w <= horizon]
                            + [(w, 'act', a) for w, a in acts])
            for w, what, a in events:
                if what == 'sample':
                    await sleep_until_wall(w + (state['jump'] if False else 0))
                    sample('planned')
                    continue
                # actions run from timer callbacks placed at the exact instant
                target_loop = w - cfg['t0'] - state['jump']
                fut = loop.create_future()

                def do(a=a, fut=fut):
                    try:
                        if a[0] == 'reconfig':
                            _k, _w, idx, newname, hold = a
                            edzed.ExtEvent(blocks[idx], 'reconfig').send(**mk_args(newname))
                            current[idx] = newname
                            if hold:
                                loop.advance_us(hold)     # the sender keeps the CPU
                        else:
                            vclock.jump(a[2])
                            state['jump'] += a[2]
                            state['jump_at'] = (wnow(), a[2])
                    except BaseException as err:    # pylint: disable=broad-except
                        obs['errors'].append(('action', repr(a), repr(err)))
                    fut.set_result(None)
                if target_loop <= loop.now_us:
                    do()
                else:
                    loop.call_at(target_loop / US, do)
                    await fut
            await sleep_until_wall(horizon + 1)
            sample('end')
            obs['alive'] = not task.done()
            obs['error'] = circuit.error
            try:
                await circuit.shutdown()
            except BaseException as err:    # pylint: disable=broad-except
                obs['errors'].append(('shutdown', repr(err)))
        try:
            sim.run(driver())
        except Livelock as err:
            obs['errors'].append(('livelock', repr(err)))
        except Exception as err:    # pylint: disable=broad-except
            obs['errors'].append(('driver', repr(err)))
        obs['exc_log'] = [c.get('message') for c in loop.exc_log]
    return obs


def judge(cfg, obs, lat_max):
    viol = []
    tag = f"{cfg['kind']} blocks={cfg['blocks']} utc={cfg.get('utc')} zone=UTC{cfg.get('tz', 0):+d}h t0={to_dt(cfg['t0'])} actions={cfg['actions']} read_lat={cfg['read_lat']}"
    for e in obs['errors']:
        viol.append((f'{e[0]}-error', f"{tag}: {e}"))
    if obs.get('alive') is False or obs.get('error') is not None:
        jumped = any(a[0] == 'jump' for a in cfg['actions'])
        viol.append(('simulation-terminated-by-clock-jump' if jumped else 'simulation-terminated',
                     f"{tag}: Circuit.error = {obs.get('error')!r}"))
        return viol
    guard = GUARD_US + lat_max + max([a[4] for a in cfg['actions'] if a[0] == 'reconfig'] + [0])
    for (w, label, current, outs, jump_at, err) in obs['samples']:
        if err is not None:
            continue
        bs = wboundaries(cfg, current, w - guard - 1, w + guard + 1)
        if any(abs(w - b) <= guard for b in bs):
            continue        # within a few milliseconds of a boundary
        if jump_at is not None:
            jw, delta = jump_at
            if delta < 0:
                continue    # a backward jump: only 'never terminates' is promised
            if w < jw + 3600 * US + guard:
                continue    # correct again within one hour
        # a reconfiguration in progress at the sample instant?
        if any(a[0] == 'reconfig' and abs(w - a[1]) <= guard + 2000 for a in cfg['actions']):
            continue
        for i, name in enumerate(current):
            exp = predicate(name, w + boff(cfg))
            if outs[i] is not exp:
                viol.append(('output-does-not-follow-the-clock',
                             f"{tag}: at {to_dt(w)} ({label}) block b{i} [{name}] outputs {outs[i]!r}, "
                             f"expected {exp!r}"))
                return viol
    return viol


def run_config(cfg):
    acc = Acc()
    tier_dev = cfg.get('max_dev', 1)
    ex = explore(lambda ch: one_exec(cfg, ch, LATS), max_dev=tier_dev, dev_kinds={'lat'},
                 max_execs=cfg.get('max_execs', 3000))
    for ch, obs in ex:
        acc.execs += 1
        acc.choice_points += sum(1 for t in ch.trace if t[0] > 1)
        lat_max = max([LATS[c] for (n, k, c) in ch.trace if k == 'lat'] + [0])
        trace = tuple((w - cfg['t0'], outs) for (w, _l, _c, outs, _j, _e) in obs['samples'])
        acc.outcome((cfg['blocks'], cfg['t0'], cfg['actions'], cfg['read_lat'], trace))
        prev = None
        for (w, _l, cur, outs, _j, _e) in obs['samples']:
            st = acc.state((cur, outs, (w // (60 * US)) % 1440 if len(obs['samples']) < 60 else 0))
            if prev is not None:
                acc.transition(prev, 'time', st)
            prev = st
        for sig, msg in judge(cfg, obs, lat_max):
            acc.violation(f"C07:{sig}", msg, cfg=cfg, choices=ch.choices)
        if acc.violations:
            break
    if ex.capped:
        acc.count('configs_capped')
        if 'max_execs' not in acc.caps:
            acc.caps.append('max_execs')
    acc.sample({'case': {k: (str(to_dt(v)) if k == 't0' else v) for k, v in cfg.items()}}, limit=3)
    return acc

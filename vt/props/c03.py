"""
C03 - an FSM follows its transition table and runs its actions in the documented order.

All FSM classes over small state/event sets are generated as real edzed.FSM subclasses;
for each, an explicit-state BFS on the live FSM applies every table event, an unknown
event and every Goto in every reachable state.  Oracle: a reference interpreter written
from docs/FSM.rst producing the expected state, return value and *ordered* action log
(cond / exit / on_exit / enter / output / on_enter, with the event data each action read).
"""
from __future__ import annotations

import asyncio
import itertools
from collections.abc import Mapping, MutableMapping

import edzed

from ..explore import Acc
from ..harness import Sim, stop
from ..probes import Probe
from ..stategraph import bfs, fingerprint

PROPERTY = 'C03'
LEVEL = 'model_checking'
LEVEL_TEXT = ("Exhaustive over FSM definitions (all transition tables with <=2 states x <=2 events and "
              "3 states x 1 event; thorough: 3 x 2 with the any-state rules restricted to absent / reject / first state) as real edzed.FSM subclasses, each explored by an "
              "explicit-state search that applies every event / unknown event / Goto in every reachable "
              "state of the live block; plus catalogues for conditions, entry/exit actions, calc_output "
              "and chained transitions. Every step is compared with a reference interpreter's state, "
              "return value and ordered action log incl. the event data seen by each action.")
LEVEL_NOTE = ("Reference interpreter written from docs/FSM.rst; canonical state = FSM state + output + "
              "simple instance attributes; where the docs leave an order open (method vs. instance "
              "callback of the same action) both orders are accepted.")
TECHNIQUE = "explicit-state model checking of the implementation over all small FSM definitions vs. reference interpreter"
RULE = ("config = one FSM definition (table / cond / action / chain catalogue); BFS over event histories "
        "with canonical-state dedup; outcome = (definition, state, symbol, ordered action log); "
        "distinct = distinct tuples")
ASSUMPTIONS = ["callbacks are pure loggers", "unique data tag per delivered event"]

UNDEF = edzed.UNDEF
NAMES = ['a', 'b', 'c']
EVS = ['e', 'f']
LOG = []        # per-execution ordered log shared by callbacks and the probe


# ------------------------------------------------------------------ configurations

def table_specs(ns, ne, any_opts=None):
    """All tables over ns states and ne events (any_opts: restrict the any-state rules)."""
    states = NAMES[:ns]
    opts = ['-', None] + states         # '-' = no rule
    cells = [(e, s) for e in EVS[:ne] for s in states]
    anys = EVS[:ne]
    for cv in itertools.product(opts, repeat=len(cells)):
        for av in itertools.product(any_opts or opts, repeat=len(anys)):
            rules = []
            for (e, s), t in zip(cells, cv):
                if t != '-':
                    rules.append([e, s, t])
            for e, t in zip(anys, av):
                if t != '-':
                    rules.append([e, None, t])
            yield dict(kind='table', states=states, rules=rules)


def configs(tier):
    out = []
    for ns, ne in ((1, 1), (1, 2), (2, 1), (2, 2), (3, 1)):
        out.extend(table_specs(ns, ne))
    if tier == 'thorough':
        # 3 states x 2 events: every combination of the 6 specific rules, any-state rules from
        # {absent, reject, first state} (the full cross, 390 625 tables, needs over an hour)
        out.extend(table_specs(3, 2, any_opts=['-', None, 'a']))
    # notations of the 'from states' column: None (any state), one name, 'a|b' (with blanks),
    # list / tuple of names, and an EMPTY sequence (an event that is known but has no transition)
    meaning = [['e', 'a', 'b'], ['e', 'b', 'c'], ['f', 'a|b', 'c'], ['g', None, 'a'], ['h', 'a', None]]
    for raw in (
            [('e', ['a'], 'b'), ('e', ('b',), 'c'), ('f', ['a', 'b'], 'c'), ('g', None, 'a'), ('h', [], 'a')],
            [('e', 'a', 'b'), ('e', ' b ', 'c'), ('f', ' a | b ', 'c'), ('g', None, 'a'), ('h', (), 'b')],
            [('f', ('b', 'a'), 'c'), ('h', [], 'c'), ('g', None, 'a'), ('e', 'b', 'c'), ('e', 'a', 'b')],
            [('e', 'a', 'b'), ('e', 'b', 'c'), ('f', 'a', 'c'), ('f', ['b'], 'c'), ('g', None, 'a'),
             ('h', 'a', None), ('h', [], 'b')]):
        out.append(dict(kind='table', states=['a', 'b', 'c'], rules=meaning, raw_rules=raw))
    # the same tables with the last state (or the last two) declared through TIMERS only
    base_tables = [c for c in out if c['kind'] == 'table' and len(c['states']) >= 2 and 'raw_rules' not in c]
    for i, c in enumerate(base_tables):
        if len(base_tables) > 400 and i % (5 if tier == 'quick' else 25):
            continue
        out.append(dict(c, inf_only=tuple(c['states'][-1:])))
        if len(c['states']) == 3:
            out.append(dict(c, inf_only=tuple(c['states'][1:])))
    cyc = [['e', 'a', 'b'], ['e', 'b', 'a'], ['f', None, 'a']]
    vals = ['absent', True, False, 0, 'x', None]
    for m in vals:
        for c in vals:
            out.append(dict(kind='cond', states=['a', 'b'], rules=cyc, cond={'e': [m, c]}))
    cyc3 = [['e', 'a', 'b'], ['e', 'b', 'c'], ['e', 'c', 'a'], ['f', 'a|b', 'c'], ['f', 'c', 'c']]
    for en in ('none', 'm', 'c', 'both'):
        for ex in ('none', 'm', 'c', 'both'):
            for om in ('default', 'map', 'undef_b', 'const'):
                out.append(dict(kind='action', states=['a', 'b', 'c'], rules=cyc3,
                                enter=en, exit=ex, outmap=om))
    # chained transitions: chain[state] = list of requests made by that state's entry action
    ch_rules = [['go', 'a', 'b'], ['nx', 'b', 'c'], ['nx', 'c', 'a'], ['back', None, 'a'],
                ['no', 'b', None]]
    chains = [
        {'b': [['ev', 'nx']]},                      # a -go-> (b) -> c
        {'b': [['goto', 'c']]},
        {'b': [['ev', 'nx']], 'c': [['ev', 'nx']]}, # a -go-> (b) -> (c) -> a
        {'b': [['goto', 'c']], 'c': [['goto', 'a']]},
        {'b': [['ev', 'nx'], ['ev', 'back']]},      # two requests: error
        {'b': [['goto', 'c'], ['goto', 'a']]},      # two requests: error
        {'a': [['goto', 'b']], 'b': [['goto', 'a']]},   # endless chain: error (also at init)
        {'b': [['goto', 'c']], 'c': [['goto', 'b']]},   # endless chain entered from a
        {'a': [['goto', 'b']]},                     # chain during initialisation
        {'c': [['ev', 'nx']]},
        {'a': [['ev', 'go']]},                      # a TABLE event chained while the FSM initialises:
        {'a': [['ev', 'go']], 'b': [['ev', 'nx']]},  # conditions are not consulted before the FSM is initialised
    ]
    for i, ch in enumerate(chains):
        for cm in ('absent', True, False):
            out.append(dict(kind='chain', states=['a', 'b', 'c'], rules=ch_rules, chain=ch,
                            cond={'nx': [cm, 'absent']}, idx=i))
            if 'a' in ch and ch['a'][0][0] == 'ev':
                for cc in ('absent', True, False):
                    out.append(dict(kind='chain', states=['a', 'b', 'c'], rules=ch_rules, chain=ch,
                                    cond={'go': [cm, cc], 'nx': [cm, 'absent']}, idx=i))
    # two FSMs: A's on_exit/on_enter events are handled (accepted / rejected) by B in the middle
    # of A's transition; every action must still read the data of its own event
    for bvar in ('accept', 'notrans', 'condfalse', 'chain'):
        out.append(dict(kind='pair', bvar=bvar, states=['a', 'b'], rules=[]))
    # an entry action chains an event whose type does not exist (EdzedUnknownEvent is reported to
    # the sender, the simulation goes on): afterwards the FSM follows its table as before
    for how in ('ext', 'direct'):
        out.append(dict(kind='unknown-chain', how=how, states=['a', 'b', 'c'], rules=[]))
    # several instances of ONE FSM class, some with external conditions / actions given to the
    # constructor: every instance follows its own
    for ext in ((0,), (1,), (2,), (0, 2), (0, 1, 2), ()):
        for what in ('cond', 'enter', 'exit', 'all'):
            if not ext and what != 'all':
                continue
            out.append(dict(kind='siblings', ext=ext, what=what, states=['a', 'b'], rules=[]))
    # chain through a zero-length timer
    for tev in ('nx', 'goto_c', 'no'):
        for dur in (0, -1, '0s'):
            out.append(dict(kind='chain', states=['a', 'b', 'c'], rules=ch_rules, chain={},
                            timers={'b': [dur, tev]}, cond={}, idx=100))
    return out


# ------------------------------------------------------------------ class factory

def _reader(kind, name, how):
    def fn(*_self):
        data = edzed.fsm_event_data.get()
        ro = isinstance(data, Mapping) and not isinstance(data, MutableMapping)
        if ro:
            try:
                data['hack'] = 1
                ro = False
            except TypeError:
                pass
        LOG.append((kind, name, data.get('tag'), how, ro))
    return fn


def make_class(cfg, holder):
    states = cfg['states']
    ns = {'STATES': list(states)}
    rules = []
    for e, s, t in cfg['rules']:
        rules.append((e, s if s is None else (s if '|' in s else [s]), t))
    ns['EVENTS'] = cfg['raw_rules'] if 'raw_rules' in cfg else rules
    kind = cfg['kind']
    enter_how = cfg.get('enter', 'm')
    exit_how = cfg.get('exit', 'm')
    chain = cfg.get('chain', {})
    events = sorted({r[0] for r in cfg['rules']})

    for s in states:
        if enter_how in ('m', 'both') or s in chain:
            base = _reader('enter', s, 'm')
            reqs = chain.get(s, [])

            def enter(self, _base=base, _reqs=reqs, _s=s):
                _base()
                for n, (rk, arg) in enumerate(_reqs):
                    et = arg if rk == 'ev' else edzed.Goto(arg)
                    ret = self.event(et, tag=f"chain-{_s}-{n}")
                    LOG.append(('chain-ret', _s, ret))
                if _reqs:
                    # the nested request must not disturb the data of the event being handled
                    LOG.append(('after-chain', _s, edzed.fsm_event_data.get().get('tag')))
            ns[f'enter_{s}'] = enter
        if exit_how in ('m', 'both'):
            ns[f'exit_{s}'] = _reader('exit', s, 'm')
    conds = cfg.get('cond')
    for e in events:
        if conds is None:
            # table family: a logging condition that always accepts
            base = _reader('cond', e, 'm')
            ns[f'cond_{e}'] = lambda self, _b=base: (_b(), True)[1]
        elif e in conds and conds[e][0] != 'absent':
            base = _reader('cond', e, 'm')
            ns[f'cond_{e}'] = lambda self, _b=base, _v=conds[e][0]: (_b(), _v)[1]
    om = cfg.get('outmap', 'default')
    if om == 'map':
        ns['calc_output'] = lambda self: {'a': 1, 'b': 2, 'c': 3}[self.state]
    elif om == 'undef_b':
        ns['calc_output'] = lambda self: UNDEF if self.state == 'b' else self.state
    elif om == 'const':
        ns['calc_output'] = lambda self: 7
    timers = cfg.get('timers')
    if timers:
        ns['TIMERS'] = {s: (d, edzed.Goto(ev[5:]) if ev.startswith('goto_') else ev)
                        for s, (d, ev) in timers.items()}
    if cfg.get('inf_only'):
        # states that are declared through TIMERS only (with an infinite duration: the timer
        # never fires, the table is the same)
        ns['STATES'] = [s for s in states if s not in cfg['inf_only']]
        ns.setdefault('TIMERS', {}).update(
            {s: (edzed.INF_TIME, edzed.Goto(states[0])) for s in cfg['inf_only']})
    holder['n'] = holder.get('n', 0) + 1
    return type(f"Gen{holder['n']}", (edzed.FSM,), ns)


def instance_kwargs(cfg, probe):
    kw = {}
    states = cfg['states']
    for s in states:
        kw[f'on_enter_{s}'] = edzed.Event(probe, f'enter_{s}')
        kw[f'on_exit_{s}'] = edzed.Event(probe, f'exit_{s}')
        if cfg.get('enter') in ('c', 'both'):
            kw[f'enter_{s}'] = _reader('enter', s, 'c')
        if cfg.get('exit') in ('c', 'both'):
            kw[f'exit_{s}'] = _reader('exit', s, 'c')
    kw['on_notrans'] = edzed.Event(probe, 'notrans')
    kw['on_output'] = edzed.Event(probe, 'out')
    conds = cfg.get('cond') or {}
    for e, (_m, c) in conds.items():
        if c != 'absent':
            base = _reader('cond', e, 'c')
            kw[f'cond_{e}'] = lambda _b=base, _v=c: (_b(), _v)[1]
    return kw


# ------------------------------------------------------------------ reference interpreter

class Ref:
    def __init__(self, cfg):
        self.cfg = cfg
        self.states = cfg['states']
        self.table = {}
        for e, s, t in cfg['rules']:
            if s is None:
                self.table[(e, None)] = t
            else:
                for x in s.split('|'):
                    self.table[(e, x.strip())] = t
        self.events = {r[0] for r in cfg['rules']}
        self.state = None
        self.out = UNDEF
        self.timers = cfg.get('timers') or {}

    def outval(self, s):
        om = self.cfg.get('outmap', 'default')
        if om == 'map':
            return {'a': 1, 'b': 2, 'c': 3}[s]
        if om == 'undef_b' and s == 'b':
            return UNDEF
        if om == 'const':
            return 7
        return s

    def lookup(self, e, s):
        if (e, s) in self.table:
            return self.table[(e, s)]
        return self.table.get((e, None))

    def cond_entries(self, e, tag):
        """-> (accepted, log entries)"""
        cfg = self.cfg
        conds = cfg.get('cond')
        ent, ok = [], True
        if conds is None:
            return True, [('cond', e, tag, 'm', True)]
        if e in conds:
            m, c = conds[e]
            if c != 'absent':
                ent.append(('cond', e, tag, 'c', True))
                ok = ok and bool(c)
            if m != 'absent':
                ent.append(('cond', e, tag, 'm', True))
                ok = ok and bool(m)
        return ok, ent

    def act(self, kind, s, tag):
        how = self.cfg.get(kind, 'm')
        ent = []
        if how in ('c', 'both'):
            ent.append((kind, s, tag, 'c', True))
        if how in ('m', 'both') or (kind == 'enter' and s in self.cfg.get('chain', {})):
            ent.append((kind, s, tag, 'm', True))
        return ent

    def event(self, sym, tag):
        """
        sym: ('ev', name) | ('goto', state) | ('unknown',)
        -> dict(ret=..., log=[...], fatal=None|str)
        """
        if sym[0] == 'unknown':
            return dict(ret='EdzedUnknownEvent', log=[], fatal=None)
        log = []
        init = self.state is None
        if sym[0] == 'ev':
            e = sym[1]
            if e not in self.events:
                return dict(ret='EdzedUnknownEvent', log=[], fatal=None)
            new = self.lookup(e, self.state)
            if new is None:
                log.append(('ev', 'notrans', 'notrans', self.state, None, e))
                return dict(ret=False, log=log, fatal=None)
            if self.out is not UNDEF:
                ok, ent = self.cond_entries(e, tag)
                log += ent
                if not ok:
                    return dict(ret=False, log=log, fatal=None)
        else:
            new = sym[1]
        # accepted
        if self.out is not UNDEF:
            log += self.act('exit', self.state, tag)
            log.append(('ev', f'exit_{self.state}', 'exit', self.state, self.out, None))
        limit = 3 * len(self.states)
        chain = self.cfg.get('chain', {})
        cur_tag = tag
        for _ in range(limit):
            self.state = new
            log += self.act('enter', new, cur_tag)
            nxt = None
            reqs = chain.get(new, [])
            for n, (rk, arg) in enumerate(reqs):
                rtag = f"chain-{new}-{n}"
                if rk == 'ev':
                    t2 = self.lookup(arg, new)
                    if t2 is None:
                        raise AssertionError("reference: rejected chain request not modelled")
                    if self.out is not UNDEF:
                        ok, ent = self.cond_entries(arg, rtag)
                        log += ent
                        if not ok:
                            log.append(('chain-ret', new, False))
                            continue
                else:
                    t2 = arg
                if nxt is not None:
                    return dict(ret='fatal', log=None, fatal='Forbidden event multiplication')
                nxt = (t2, rtag)
                log.append(('chain-ret', new, True))
            if reqs:
                log.append(('after-chain', new, cur_tag))
            if nxt is None and new in self.timers:
                dur, tev = self.timers[new]
                # zero / negative duration: the timed event is generated immediately
                if tev.startswith('goto_'):
                    nxt = (tev[5:], None)
                else:
                    t2 = self.lookup(tev, new)
                    if t2 is None:
                        log.append(('ev', 'notrans', 'notrans', new, None, tev))
                    else:
                        ok = True
                        if self.out is not UNDEF:
                            ok, ent = self.cond_entries(tev, None)
                            log += ent
                        if ok:
                            nxt = (t2, None)
            if nxt is None:
                break
            # intermediate state: only its exit action runs, with the chained event's data
            new, cur_tag = nxt
            log += self.act('exit', self.state, cur_tag)
        else:
            return dict(ret='fatal', log=None, fatal='Chained state transition limit')
        ov = self.outval(self.state)
        if ov is not UNDEF:
            prev = self.out
            if prev is UNDEF or prev != ov:
                self.out = ov
                log.append(('ev', 'out', 'output', None, ov, prev))
        log.append(('ev', f'enter_{self.state}', 'enter', self.state, self.out, None))
        del init
        return dict(ret=True, log=log, fatal=None)


def norm_log(entries):
    """Normalise: probe records -> ('ev', ...) tuples; method/callback pairs sorted."""
    out = []
    for rec in entries:
        if len(rec) == 4 and isinstance(rec[0], int):
            _t, _n, etype, d = rec
            trig = d.get('trigger')
            if trig == 'output':
                out.append(('ev', etype, trig, None, d.get('value'), d.get('previous')))
            elif trig == 'notrans':
                out.append(('ev', etype, trig, d.get('state'), None, d.get('event')))
            else:
                out.append(('ev', etype, trig, d.get('state'), d.get('value'), None))
        else:
            out.append(rec)
    # the order of a method and an instance callback of the same action is not defined
    i = 0
    while i + 1 < len(out):
        a, b = out[i], out[i + 1]
        if (a[0] in ('cond', 'enter', 'exit') and a[0] == b[0] and a[1] == b[1]
                and a[2] == b[2] and a[3] > b[3]):
            out[i], out[i + 1] = b, a
        i += 1
    return out


def alphabet(cfg):
    evs = sorted({r[0] for r in cfg['rules']})
    al = [('ev', e) for e in evs] + [('unknown',)]
    al += [('goto', s) for s in cfg['states']]
    return al


def classify(exp, got):
    """A short signature for a log mismatch."""
    def kinds(lg):
        return [x[0] + ':' + str(x[1]) for x in lg]
    ke, kg = kinds(exp), kinds(got)
    if ke != kg:
        if sorted(ke) == sorted(kg):
            return 'action-order'
        return 'action-set'
    for a, b in zip(exp, got):
        if a != b:
            if a[0] in ('cond', 'enter', 'exit'):
                if a[2] != b[2]:
                    return f'event-data-seen-by-{a[0]}'
                if a[4] != b[4]:
                    return 'event-data-not-read-only'
                return 'action-log'
            return f'event-items-{a[2]}'
    return 'log'


def run_history(cfg, hist, holder):
    info = {'viol': [], 'steps': []}
    del LOG[:]
    with Sim() as sim:
        probe = Probe('probe', log=LOG)
        cls = make_class(cfg, holder)
        try:
            fsm = cls('fsm', **instance_kwargs(cfg, probe))
        except Exception as err:    # pylint: disable=broad-except
            info['viol'].append(('instance-creation-failed', repr(err)))
            return None, info
        ref = Ref(cfg)

        async def driver():
            task = asyncio.create_task(sim.circuit.run_forever())
            exp = ref.event(('goto', cfg['states'][0]), None)
            try:
                await sim.circuit.wait_init()
            except Exception as err:    # pylint: disable=broad-except
                if exp['fatal'] and exp['fatal'] in str(err):
                    info['dead'] = True
                    info['canon_dead'] = 'init-fatal'
                    return
                info['viol'].append(('start-failed', repr(err)))
                info['dead'] = True
                return
            if exp['fatal']:
                info['viol'].append(('chain-error-not-raised', f"init: expected {exp['fatal']}"))
                info['dead'] = True
                await stop(sim.circuit)
                return
            got = norm_log(LOG)
            if got != norm_log(exp['log']):
                info['viol'].append((classify(norm_log(exp['log']), got) + ':init',
                                     f"initialisation: log {got!r}, expected {exp['log']!r}"))
            for n, sym in enumerate(hist):
                tag = f"t{n}"
                del LOG[:]
                s_before, o_before = fsm.state, fsm.output
                exp = ref.event(tuple(sym), tag)
                try:
                    if sym[0] == 'goto':
                        ret = fsm.event(edzed.Goto(sym[1]), tag=tag, source='_ext_')
                    elif sym[0] == 'unknown':
                        ret = edzed.ExtEvent(fsm, 'zzz').send(tag=tag)
                    else:
                        ret = edzed.ExtEvent(fsm, sym[1]).send(tag=tag)
                except edzed.EdzedUnknownEvent:
                    ret = 'EdzedUnknownEvent'
                except Exception as err:    # pylint: disable=broad-except
                    ret = err
                await asyncio.sleep(0)
                await asyncio.sleep(0)
                err = sim.circuit.error
                got = norm_log(LOG)
                info['steps'].append((sym, repr(ret), fsm.state, repr(fsm.output)))
                if exp['fatal']:
                    if err is None or not isinstance(err, edzed.EdzedCircuitError) \
                            or exp['fatal'] not in str(err):
                        info['viol'].append(('chain-error-not-raised',
                                             f"{sym} in {s_before}: expected fatal '{exp['fatal']}', got ret={ret!r} error={err!r}"))
                    info['dead'] = True
                    break
                if err is not None or isinstance(ret, Exception):
                    info['viol'].append(('unexpected-error',
                                         f"{sym} in {s_before}: ret={ret!r} error={err!r}"))
                    info['dead'] = True
                    break
                if ret != exp['ret'] or (exp['ret'] in (True, False) and ret is not exp['ret']):
                    info['viol'].append(('return-value',
                                         f"{sym} in state {s_before}: returned {ret!r}, expected {exp['ret']!r}"))
                if fsm.state != ref.state:
                    info['viol'].append(('wrong-state',
                                         f"{sym} in state {s_before}: state {fsm.state!r}, expected {ref.state!r}"))
                if fsm.output != ref.out:
                    info['viol'].append(('wrong-output',
                                         f"{sym} in state {s_before}: output {fsm.output!r}, expected {ref.out!r}"))
                e_log = norm_log(exp['log'])
                if got != e_log:
                    info['viol'].append((classify(e_log, got),
                                         f"{sym} in state {s_before} (out {o_before!r}): log {got!r}, expected {e_log!r}"))
            if not info.get('dead'):
                info['canon'] = (fsm.state, repr(fsm.output),
                                 fingerprint(fsm, skip=('comment', 'name', 'key', 'debug')),
                                 repr(fsm.sdata))
            await stop(sim.circuit)
            del task
        sim.run(driver())
    return (None if info.get('dead') else info.get('canon')), info


def _reader2(who, kind, name):
    def fn(*_self):
        data = edzed.fsm_event_data.get()
        LOG.append((who, kind, name, data.get('tag'), data.get('source')))
    return fn


def run_pair(cfg, hist):
    """Two linked FSMs; judge only which event's data each action read."""
    info = {'viol': [], 'steps': []}
    del LOG[:]
    bvar = cfg['bvar']
    with Sim() as sim:
        nsA = {'STATES': ['a', 'b'], 'EVENTS': [('e', 'a', 'b'), ('e', 'b', 'a')]}
        for st in ('a', 'b'):
            nsA[f'enter_{st}'] = _reader2('A', 'enter', st)
            nsA[f'exit_{st}'] = _reader2('A', 'exit', st)
        nsA['cond_e'] = lambda self, _b=_reader2('A', 'cond', 'e'): (_b(), True)[1]
        nsB = {'STATES': ['x', 'y']}
        if bvar == 'notrans':
            nsB['EVENTS'] = [('e', 'x', 'y'), ('e', 'y', None)]
        else:
            nsB['EVENTS'] = [('e', 'x', 'y'), ('e', 'y', 'x'), ('g', None, 'x')]
        for st in ('x', 'y'):
            nsB[f'enter_{st}'] = _reader2('B', 'enter', st)
            nsB[f'exit_{st}'] = _reader2('B', 'exit', st)
        cv = bvar != 'condfalse'
        nsB['cond_e'] = lambda self, _b=_reader2('B', 'cond', 'e'), _v=cv: (_b(), _v)[1]
        if bvar == 'chain':
            base = nsB['enter_y']

            def enter_y(self, _base=base):
                _base()
                self.event('g', tag='bchain')
                LOG.append(('B', 'after-chain', 'y', edzed.fsm_event_data.get().get('tag'),
                            edzed.fsm_event_data.get().get('source')))
            nsB['enter_y'] = enter_y
        clsA = type('PairA', (edzed.FSM,), nsA)
        clsB = type('PairB', (edzed.FSM,), nsB)
        fb = clsB('fsmB')
        fa = clsA('fsmA', on_exit_a=edzed.Event(fb, 'e'), on_enter_b=edzed.Event(fb, 'e'),
                  on_exit_b=edzed.Event(fb, 'e'))

        def judge(step, tagA, tagB):
            for rec in LOG:
                who, kind, name, tag, src = rec
                if who == 'A':
                    if (tag, src) != tagA:
                        info['viol'].append((f'event-data-seen-by-{kind}',
                                             f"{step}: A.{kind}_{name} read tag={tag!r} source={src!r}, its event has {tagA!r}; log={LOG!r}"))
                elif kind == 'after-chain' or tag == 'bchain':
                    pass    # checked below
                elif (tag, src) not in (tagB, (None, 'fsmA')):
                    info['viol'].append((f'event-data-seen-by-{kind}',
                                         f"{step}: B.{kind}_{name} read tag={tag!r} source={src!r}; log={LOG!r}"))
            for rec in LOG:
                if rec[0] == 'B' and rec[1] == 'after-chain':
                    # data of the event that made B enter y
                    ent = [r for r in LOG if r[:3] == ('B', 'enter', 'y')]
                    if ent and (rec[3], rec[4]) != (ent[-1][3], ent[-1][4]):
                        info['viol'].append(('event-data-seen-by-enter',
                                             f"{step}: B.enter_y read {ent[-1][3:]} before and {rec[3:]} after its chained request"))

        async def driver():
            task = asyncio.create_task(sim.circuit.run_forever())
            await sim.circuit.wait_init()
            judge('init', (None, None), (None, None))
            for n, sym in enumerate(hist):
                del LOG[:]
                tag = f"t{n}"
                if sym == 'A.e':
                    edzed.ExtEvent(fa, 'e').send(tag=tag)
                    judge(sym, (tag, '_ext_'), (None, 'fsmA'))
                elif sym == 'B.e':
                    edzed.ExtEvent(fb, 'e').send(tag=tag)
                    judge(sym, (None, None), (tag, '_ext_'))
                else:
                    fa.event(edzed.Goto(sym[-1]), tag=tag, source='drv')
                    judge(sym, (tag, 'drv'), (None, 'fsmA'))
                info['steps'].append((sym, fa.state, fb.state))
                if sim.circuit.error is not None:
                    info['viol'].append(('unexpected-error', repr(sim.circuit.error)))
                    info['dead'] = True
                    break
            info['canon'] = ('pair', bvar, fa.state, fb.state)
            await stop(sim.circuit)
            del task
        sim.run(driver())
    return (None if info.get('dead') else info['canon']), info


def cfg_key(cfg):
    return repr(sorted((k, repr(v)) for k, v in cfg.items()))


class ThenFSM(edzed.FSM):
    STATES = ['a', 'b', 'c']
    EVENTS = [('go', 'a', 'b'), ('nx', 'b', 'c'), ('back', None, 'a')]

    def enter_b(self):
        then = edzed.fsm_event_data.get().get('then')
        if then:
            self.event(then)


def run_unknown_chain(cfg, acc):
    viol = []
    steps = []
    with Sim() as sim:
        fsm = ThenFSM('fsm')

        def send(etype, **data):
            try:
                if cfg['how'] == 'ext':
                    return edzed.ExtEvent(fsm, etype).send(**data)
                return fsm.event(etype, **data)
            except edzed.EdzedUnknownEvent:
                return 'EdzedUnknownEvent'
            except Exception as err:    # pylint: disable=broad-except
                return repr(err)

        async def driver():
            task = asyncio.create_task(sim.circuit.run_forever())
            await sim.circuit.wait_init()
            table = {('go', 'a'): 'b', ('nx', 'b'): 'c', ('back', 'a'): 'a', ('back', 'b'): 'a', ('back', 'c'): 'a'}
            ret = send('go', then='no_such_event')
            steps.append(('go then=no_such_event', ret, fsm.state))
            if ret != 'EdzedUnknownEvent':
                viol.append(('return-value', f"chained unknown event: event() -> {ret!r}"))
            for et, data in (('nx', {}), ('go', {}), ('back', {}), ('go', {'then': 'nx'}), ('nx', {}),
                             ('back', {}), ('go', {}), ('nx', {})):
                before = fsm.state
                if sim.circuit.error is not None:
                    viol.append(('unexpected-error', f"after {steps}: {sim.circuit.error!r}"))
                    break
                ret = send(et, **data)
                exp_state = table.get((et, before))
                if exp_state == 'b' and data.get('then') == 'nx':
                    exp_state = 'c'
                exp_ret = exp_state is not None
                steps.append((et, ret, fsm.state))
                if ret is not exp_ret or fsm.state != (exp_state or before):
                    viol.append(('wrong-state', f"after an entry action had chained an unknown event: {et!r} {data} in "
                                 f"state {before!r} -> returned {ret!r}, state {fsm.state!r}; the table says "
                                 f"{exp_ret}, {exp_state or before!r}; steps {steps}"))
                    break
            await stop(sim.circuit)
            del task
        sim.run(driver())
    acc.execs += 1
    acc.outcome(('unknown-chain', cfg['how'], repr(steps)))
    acc.state(('unknown-chain', cfg['how']))
    return viol


class Sib(edzed.FSM):
    STATES = ['a', 'b']
    EVENTS = [('e', 'a', 'b'), ('e', 'b', 'a')]


def run_siblings(cfg, hist):
    """
    Three instances of class Sib created in order 0, 1, 2; those in cfg['ext'] get external
    functions: cond_e (accepts every second call), enter_b, exit_b (log).  hist: indexes of the
    instances receiving event 'e'.
    """
    info = {'viol': [], 'steps': []}
    calls = []
    with Sim() as sim:
        blocks = []
        condcnt = {}
        for i in range(3):
            kw = {}
            if i in cfg['ext']:
                if cfg['what'] in ('cond', 'all'):
                    def cond(i=i):
                        condcnt[i] = condcnt.get(i, 0) + 1
                        calls.append((i, 'cond'))
                        return condcnt[i] % 2 == 0
                    kw['cond_e'] = cond
                if cfg['what'] in ('enter', 'all'):
                    kw['enter_b'] = lambda i=i: calls.append((i, 'enter_b'))
                if cfg['what'] in ('exit', 'all'):
                    kw['exit_b'] = lambda i=i: calls.append((i, 'exit_b'))
            blocks.append(Sib(f'sib{i}', **kw))
        ref = ['a', 'a', 'a']
        refcnt = {}

        async def driver():
            task = asyncio.create_task(sim.circuit.run_forever())
            try:
                await sim.circuit.wait_init()
            except Exception as err:    # pylint: disable=broad-except
                info['viol'].append(('start-failed', repr(err)))
                info['dead'] = True
                return
            if calls:
                info['viol'].append(('foreign-action-called', f"during start-up: {calls}"))
            for i in hist:
                del calls[:]
                exp_calls = []
                accept = True
                has = i in cfg['ext']
                if has and cfg['what'] in ('cond', 'all'):
                    refcnt[i] = refcnt.get(i, 0) + 1
                    exp_calls.append((i, 'cond'))
                    accept = refcnt[i] % 2 == 0
                if accept:
                    if ref[i] == 'b' and has and cfg['what'] in ('exit', 'all'):
                        exp_calls.append((i, 'exit_b'))
                    ref[i] = 'b' if ref[i] == 'a' else 'a'
                    if ref[i] == 'b' and has and cfg['what'] in ('enter', 'all'):
                        exp_calls.append((i, 'enter_b'))
                try:
                    ret = edzed.ExtEvent(blocks[i], 'e').send()
                except Exception as err:    # pylint: disable=broad-except
                    ret = err
                info['steps'].append((i, repr(ret), [b.state for b in blocks]))
                what = f"event 'e' to sib{i} (instances with external functions: {cfg['ext']}, {cfg['what']})"
                if ret is not accept:
                    info['viol'].append(('return-value', f"{what}: returned {ret!r}, expected {accept}"))
                if [b.state for b in blocks] != ref:
                    info['viol'].append(('wrong-state', f"{what}: states {[b.state for b in blocks]}, expected {ref}"))
                if calls != exp_calls:
                    info['viol'].append(('foreign-action-called' if any(c[0] != i for c in calls) else 'action-set',
                                         f"{what}: external functions called {calls}, expected {exp_calls}"))
                if sim.circuit.error is not None:
                    info['viol'].append(('unexpected-error', repr(sim.circuit.error)))
                    info['dead'] = True
                    break
            info['canon'] = (tuple(b.state for b in blocks), tuple(sorted((k, v % 2) for k, v in condcnt.items())))
            await stop(sim.circuit)
            del task
        sim.run(driver())
    return (None if info.get('dead') else info.get('canon')), info


def run_config(cfg):
    acc = Acc()
    holder = {}
    key = cfg_key(cfg)
    if cfg['kind'] == 'unknown-chain':
        for sig, msg in run_unknown_chain(cfg, acc):
            acc.violation(f"C03:{sig}:unknown-chain", msg, cfg=cfg)
        return acc
    if cfg['kind'] == 'siblings':
        def on_step2(hist, hc, sym, canon, info):
            for sig, msg in info['viol']:
                acc.violation(f"C03:{sig}:siblings", msg, cfg=cfg, detail={'history': list(hist)})
            acc.outcome((cfg['ext'], cfg['what'], hc, sym, repr(info['steps'][-1:])))
        res = bfs(lambda h: run_siblings(cfg, h), [0, 1, 2], acc, max_depth=14, on_step=on_step2)
        acc.count('graphs_closed' if res['closed'] else 'graphs_open')
        if not res['closed'] and not acc.violations:
            acc.violation("C03:graph-did-not-close:siblings", str(res), cfg=cfg)
        return acc

    def on_step(hist, hc, sym, canon, info):
        for sig, msg in info['viol']:
            acc.violation(f"C03:{sig}:{cfg['kind']}", msg, cfg=cfg,
                          detail={'history': list(hist), 'steps': info['steps']})
        acc.outcome((key, hc, sym, repr(info['steps'][-1:])))

    def run(h):
        if cfg['kind'] == 'pair':
            return run_pair(cfg, h)
        canon, info = run_history(cfg, h, holder)
        if canon is not None:
            canon = (key if cfg['kind'] != 'table' else ('table', len(cfg['states'])),) + canon
        return canon, info
    c0, info0 = run(())
    acc.execs += 1
    for sig, msg in info0['viol']:
        acc.violation(f"C03:{sig}:{cfg['kind']}", msg, cfg=cfg, detail={'history': []})
    if c0 is None:
        acc.state(('terminal', key))
        acc.count('definitions_fatal_at_init')
        return acc
    alpha = alphabet(cfg) if cfg['kind'] != 'pair' else ['A.e', 'B.e', 'A.goto_a', 'A.goto_b']
    res = bfs(run, alpha, acc, max_depth=6, on_step=on_step)
    acc.count('graphs_closed' if res['closed'] else 'graphs_open')
    if not res['closed'] and not acc.violations:
        acc.violation(f"C03:graph-did-not-close:{cfg['kind']}", str(res), cfg=cfg)
    acc.sample({'cfg': cfg, 'result': res}, limit=3)
    return acc
